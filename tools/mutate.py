#!/usr/bin/env python3
"""Sensitivity helper: apply one textual mutation (or a patch) to a scratch copy of /repo's
library, run the given checks against it with VERIF_REPO, report, remove the copy.

  tools/mutate.py --file indi/transport/buffer.py --old 'X' --new 'Y' C02 C11
  tools/mutate.py --patch seeded/foo/patch.diff C02
  options: --suite  also run the repository's tests on the mutant (slow: ~150 s)
"""
import argparse
import os
import shutil
import subprocess
import sys
import tempfile
import time

VERIF = os.path.dirname(os.path.dirname(os.path.abspath(__file__)))


def main():
    ap = argparse.ArgumentParser()
    ap.add_argument("--file")
    ap.add_argument("--old")
    ap.add_argument("--new")
    ap.add_argument("--patch")
    ap.add_argument("--suite", action="store_true")
    ap.add_argument("--tier", default="quick")
    ap.add_argument("--seed", default="1")
    ap.add_argument("checks", nargs="+")
    a = ap.parse_args()
    tmp = tempfile.mkdtemp(prefix="indipy-mut-")
    try:
        subprocess.check_call(["git", "-C", "/repo", "worktree", "add", "--detach", "-q", tmp + "/w", "HEAD"])
        root = tmp + "/w"
        # carry over uncommitted edits of /repo's working tree, if any
        diff = subprocess.run(["git", "-C", "/repo", "diff", "HEAD"], capture_output=True, text=True).stdout
        if diff.strip():
            subprocess.run(["git", "-C", root, "apply"], input=diff, text=True, check=True)
        if a.patch:
            subprocess.check_call(["git", "-C", root, "apply", os.path.abspath(a.patch)])
        else:
            p = os.path.join(root, a.file)
            s = open(p).read()
            if s.count(a.old) != 1:
                print(f"MUTATION-ERROR: pattern occurs {s.count(a.old)} times in {a.file}")
                return 3
            open(p, "w").write(s.replace(a.old, a.new))
        if a.suite:
            r = subprocess.run(
                ["/venv/bin/python", "-m", "pytest", "-q", "-p", "no:cacheprovider", "-x", "tests"], cwd=root, capture_output=True, text=True,
                env={**os.environ, "PYTHONPATH": root},
            )
            print("suite:", r.stdout.strip().splitlines()[-1] if r.stdout.strip() else r.stderr[-300:])
        rc_all = 0
        for c in a.checks:
            t = time.time()
            r = subprocess.run(
                [os.path.join(VERIF, "check"), c, "--tier", a.tier, "--no-evidence"], capture_output=True, text=True,
                env={**os.environ, "VERIF_REPO": root, "VERIF_SEED": a.seed},
            )
            lines = [l for l in r.stdout.splitlines() if l.startswith(("violation:", "regression fails", "HARNESS-ERROR"))]
            verdict = {0: "MISSED (exit 0)", 1: "CAUGHT", 2: "HARNESS-ERROR"}.get(r.returncode, f"exit {r.returncode}")
            print(f"{c}: {verdict} in {time.time() - t:.0f}s")
            for l in lines[:3]:
                print("   ", l[:300])
            if r.returncode == 2:
                print(r.stdout[-1500:], r.stderr[-1500:])
            rc_all |= 0 if r.returncode == 1 else 1
        return rc_all
    finally:
        subprocess.run(["git", "-C", "/repo", "worktree", "remove", "--force", tmp + "/w"], capture_output=True)
        shutil.rmtree(tmp, ignore_errors=True)


if __name__ == "__main__":
    sys.exit(main())
