#!/usr/bin/env python3
"""Summarise mutants/auto_sweep.jsonl: verdict counts, catching check per file, list of non-caught mutants."""
import collections
import json
import os
import sys

VERIF = os.path.dirname(os.path.dirname(os.path.abspath(__file__)))
path = sys.argv[1] if len(sys.argv) > 1 else os.path.join(VERIF, "mutants", "auto_sweep.jsonl")
rows = [json.loads(l) for l in open(path)]
print(f"{len(rows)} mutants:", dict(collections.Counter(r["verdict"] for r in rows)))
by = collections.Counter(r.get("by") for r in rows if r["verdict"] == "caught")
print("caught by:", dict(sorted(by.items())))
for r in rows:
    if r["verdict"] not in ("caught", "does-not-import", "does-not-compile"):
        print(f"{r['verdict']:>13} {r['file']}:{r['line']} {r['kind']} {r['old'][:50]!r} -> {r['new'][:30]!r}  ran={','.join(r['checks'])}")
