#!/usr/bin/env python3
"""Regenerates /verif/MANIFEST.json from the table below (run after adding a check)."""
import json
import os

VERIF = os.path.dirname(os.path.dirname(os.path.abspath(__file__)))

# id -> (category, technique, level text, level note, design ref)
CHECKS = {
    "C12": (
        "fault_enumeration",
        "exhaustive hostile-message catalogue x target kind x insertion position x transport {TCP, TTY, direct} + Hypothesis-filled names/values, x split delivery x log forwarding on/off, word-size BLOB sizes under compressed formats, XML declarations naming encodings, with a snooping driver in the server; survival, applicable-part-applied and state-frame oracle on real handlers over fake streams",
        "Fault enumeration: every entry of a catalogue of hostile-but-well-formed client messages is injected at every position of a "
        "session of valid traffic on each transport; afterwards nothing may have escaped message handling, only validly named elements "
        "may have changed (to the submitted values), the sender and a bystander must still be registered and served, and a valid request "
        "sent right after must be answered without padding. Hypothesis adds free-form names and values.",
        "Trusted: harness/session.py (fake streams, snapshots through driver attributes); minimal reading of 'not disturbed'.",
        "DESIGN.md section 4, C12",
    ),
    "C14": (
        "exploration",
        "Hypothesis handler configurations x element kinds x op sequences x 1-2 instances, (base/derived class mix), exhaustive nested-write configurations (a handler forwarding with set_value), wraps-decorated coroutine handlers, one function on two event kinds, stamped client writes; handler-trace vs analytic expectation",
        "Generated-input search over handler configurations and write sequences: handlers are tracing closures declared through the "
        "documented @on decorator on generated driver classes; after each operation the trace, the element value and the recorded "
        "publications are compared with the analytic expectation of the event contract (Write once and first, veto, one publication "
        "iff enabled, Change iff changed with (old,new), Read before return, no foreign handlers). Exploration.",
        "Trusted: the analytic expectation in harness/props/c14.py; AnyOfMany switches so the requested value is the value taken.",
        "DESIGN.md section 4, C14",
    ),
    "C15": (
        "exploration",
        "Hypothesis message streams over a small name universe (redefinition, kind mismatch, unknown targets, deletions) x foreign spellings x fragmentation, verbatim repeats, updates aimed at earlier definitions, contradictory / compressed BLOB sizes, repeated / decreasing time stamps, whole-case renaming (glob characters, raw Latin-1), mid-stream client writes; reference-client differential (validity predicate where the statement leaves a choice) after every message",
        "Model-based generated search: the client's public view is compared with an independent reference interpreter of the INDI client "
        "rules after every message of generated streams (direct), and at the end of the same streams sent as fragmented bytes through "
        "the real client connection handler, whose receive task must survive. Exploration.",
        "Trusted: harness/refclient.py (reference interpreter), harness/gen.py serializer.",
        "DESIGN.md section 4, C15",
    ),
    "C16": (
        "exploration",
        "Hypothesis histories of stream messages interleaved with callback registration/removal (filters x event types x plain/coroutine/raising/one-shot), callbacks as function/partial/method/method of an otherwise unreferenced object/callable object, repeated / decreasing time stamps, names with glob characters, mid-stream client writes; reference event derivation + probe-filter differential",
        "Model-based generated search over histories: the dispatched event sequence (seen by a filter-less probe) must equal, per message, "
        "the events the reference interpreter derives (change chains per definition epoch), and each callback's log must equal the probe's "
        "sequence filtered by its predicate and registration window. The generator is measured for the one-shot-followed-by-matching "
        "class (a harness error if it is empty). Exploration.",
        "Trusted: harness/refclient.py event derivation; removal-by-criteria semantics as implemented by the documented keyword interface.",
        "DESIGN.md section 4, C16",
    ),
    "C17": (
        "exploration",
        "exhaustive virtual-time grid enumeration (arrival instants x match patterns x timeout x polling x condition x event kind {value, state, definition} x plain / glob-character names) on a deterministic virtual-clock loop + Hypothesis finer grids / concurrent waits (per-wait polling schedules, raising checks), analytic oracle",
        "Schedule search with the harness owning the clock: every placement of <= 2 (quick) / <= 3 (thorough) events on an 11-point grid "
        "with every timeout, polling setting, condition and event kind runs against the real waitforevent on a virtual-time event loop; "
        "the oracle is analytic (first matching event object of a probe's log, completion instant, polling tick instants, callback "
        "baseline). Exhaustive inside the grid, exploration beyond; ties with the timeout instant are excluded as stated.",
        "Trusted: harness/net.py VirtualLoop (timers fire in order at their own instant, nothing else advances time).",
        "DESIGN.md section 4, C17",
    ),
    "C18": (
        "fault_enumeration",
        "exhaustive fault kind x step index x victim x transport enumeration over a script catalogue + Hypothesis scripts, handler exceptions of three classes, a 60/400-connection soak on one router, connections announcing devices of their own, on real TCP/TTY handlers over fake streams; cleanliness invariants + policy-aware delivery oracle",
        "Fault enumeration: six ways a connection can end are injected at every step of session scripts, for every victim, on both server "
        "transports; afterwards the router's public state, the handler task, the writer and a delivery spy must show the victim gone, "
        "every bystander must receive exactly the later traffic its policy admits, and a newcomer must start from defaults.",
        "Trusted: fake streams as the model of sockets/stdio (EOF, read/write errors); harness/session.py.",
        "DESIGN.md section 4, C18",
    ),
    "C19": (
        "exploration",
        "exhaustive DFS over every completion order of pending write/flush/drain awaitables (Explorer) for 1-3 TCP/TTY/client connections and bursts <= 4/5 + Hypothesis bursts, a 150 kB message, a 3000/20000-message stalled peer, a refused write on the TTY channel, byte-exact output oracle",
        "Schedule search with the harness owning the I/O completion order: the Explorer re-executes each scenario for every choice prefix, so "
        "all release orders (including a connection that never completes) are enumerated; each connection's output must be byte-identical "
        "to the concatenation of the routed messages in routing order. Exhaustive inside the bounds, Hypothesis beyond.",
        "Trusted: the fake-stream model (synchronous StreamWriter.write, arbitrary completion order of outstanding aiofiles calls).",
        "DESIGN.md section 4, C19",
    ),
    "C20": (
        "exploration",
        "Hypothesis-generated messages x exhaustive single-point perturbation (incl. empty-vs-absent text, long values, float attributes, look-alike Unicode spellings), structural-view oracle",
        "Generated-input search: every message drawn from the grammar is compared (==, != both orders) with a rebuilt copy "
        "and with every single-point perturbation of itself; the oracle is equality of structural views computed from the "
        "generating specs, never the library's own comparison. Exploration is the right level: the domain is unbounded, "
        "absence is not established, the evidence states how many messages/pairs were compared.",
        "Trusted: harness/gen.py (grammar, expected_view), the library constructors storing their arguments (asserted per case).",
        "DESIGN.md section 4, C20",
    ),
    "C01": (
        "exploration",
        "Hypothesis deployments (incl. inheritance) x mixed driver/client histories with in-flight batches x independent fragmentation of four byte streams; three-way oracle: spec-derived expectation, reference interpreter over the raw wire bytes, library client views (network + snooping)",
        "Generated-input search through the whole stack in one process with the harness owning fragmentation and quiescence: after every "
        "settle point the property set expected from the generating spec and the drivers' attributes must equal both what an "
        "independent reference client derives from the raw bytes on the wire and what the library's network client and an in-process "
        "snooping client show, in both directions, with numbers judged by denoted value and notation and BLOBs by definition epoch. "
        "Exploration: bounded sizes and histories, absence not established.",
        "Trusted: harness/drivers.py (spec model), harness/refclient.py, harness/refnum.py, harness/net.py (fake pipes, settle order).",
        "DESIGN.md section 4, C01",
    ),
    "C02": (
        "exploration",
        "exhaustive 1/2/3-cut and char-by-char partition sweeps of a corpus + Hypothesis streams/partitions (foreign spellings with CR / LF / tab inside tags, CDATA-wrapped text, over-stated BLOB sizes), optionally under DEBUG logging, prefix-delivery oracle from the generating specs; the same oracle through the real read loops of the TCP client/server and TTY handlers with read-size-aligned chunking",
        "Generated-input search: message streams in canonical and foreign spellings are fed to the real Buffer under every 1-, 2- (3- in "
        "thorough) cut partition of a corpus and under drawn partitions of drawn streams, at three thresholds; after every process call the "
        "delivered views must equal the expected views of exactly the messages completed so far. Exploration with exhaustive parts.",
        "Trusted: harness/gen.py serializer and expected views; element length as the smallest threshold covered by the statement.",
        "DESIGN.md section 4, C02",
    ),
    "C11": (
        "exploration",
        "Hypothesis fragment-alphabet junk/truncation/corruption streams x fragmentations x thresholds, exhaustive truncation positions, atheris campaign (thorough), the same bound and recovery through the client/server/TTY read loops; safety, metamorphic junk-transparency and recovery oracles",
        "Generated-input search with invariants (terminates, raises nothing, only registered messages, retention <= threshold), a metamorphic "
        "relation (harmless junk does not change what is delivered nor when) and a recovery obligation after every truncation position of a "
        "corpus; coverage-guided fuzzing adds byte-level inputs in the thorough tier. Termination is bounded termination. Exploration.",
        "Trusted: the harmless-junk construction (no known-tag opener), SIGALRM backstop as the termination bound.",
        "DESIGN.md section 4, C11",
    ),
    "C03": (
        "exploration",
        "exhaustive attribute-subset sweep + Hypothesis grammar/foreign-spelling round-trip (metamorphic), edit-after-serialization and fill-by-append cases, user subclasses of the message classes present in the process, structural-view oracle",
        "Generated-input search with a round-trip and a metamorphic oracle: every kind x every subset of optional attributes is "
        "swept exhaustively, values/children/spellings are drawn by Hypothesis; the expected view is computed from the generating "
        "spec, the foreign spellings come from a hand-written serializer. Exploration: unbounded text domain, absence not established.",
        "Trusted: harness/gen.py (grammar, hand-written serializer, expected_view), xml.etree as XML reference.",
        "DESIGN.md section 4, C03",
    ),
    "C04": (
        "exploration",
        "exhaustive enumeration of the bounded router universe (device subsets x client states x every client send) + Hypothesis histories, container-like (falsy) endpoints, unreferenced devices, floods of re-entrant sends, reference-router differential",
        "Model-based generated search: every abstract state of the bounded universe is built on a real Router and every client-originated "
        "send from every sender is compared, as a multiset of (endpoint, message) deliveries, with a 40-line reference router; longer "
        "histories in larger universes are drawn by Hypothesis. Exhaustive inside the bound, exploration beyond.",
        "Trusted: harness/routing.py RefRouter as the statement of C04; recording endpoints; a real Driver supplies accepts().",
        "DESIGN.md section 4, C04",
    ),
    "C05": (
        "exploration",
        "exhaustive enumeration of all 17^n policy states x every device send x every mutating op (cold and warm) + endpoints reacting from inside a delivery + device names related as strings + Hypothesis histories, reference-router differential",
        "Model-based generated search: all (1+4^2)^n abstract states (n=2 quick, 3 thorough) x every device-originated message kind x "
        "device name x sender, plus every register/unregister/re-register/enableBLOB transition with the router's public state compared "
        "to the model and deliveries re-observed; Hypothesis histories beyond the bound.",
        "Trusted: harness/routing.py RefRouter as the statement of C05.",
        "DESIGN.md section 4, C05",
    ),
    "C06": (
        "exploration",
        "Hypothesis deployments x write targets x value notations x fragmentations x device-specific refreshes through the real Client, server handlers and Router; before/after snapshot frame oracle + mirror comparison",
        "Generated-input search through the whole stack in one process: a real network Client assigns and submits values (all notations) "
        "to a generated target over fake pipes with generated fragmentation; a snapshot of every element of every device before and "
        "after must differ exactly at the targeted elements, by the submitted values (numbers by the value the sent text denotes), and "
        "the client's view must equal the drivers' state; a second submit() must write nothing. Exploration.",
        "Trusted: harness/stack.py, harness/net.py (fake pipes), harness/refnum.py; read-only vectors are not targeted.",
        "DESIGN.md section 4, C06",
    ),
    "C07": (
        "exploration",
        "Hypothesis-generated driver definitions x op histories (incl. reset, re-publication, group macros, the library's Proxy alongside) x request matrix, expectation computed from the generating spec, library parse-back of every emitted message (from bytes and the way the transports decode)",
        "Generated-input search: device definitions (all vector kinds, inheritance, enable flags) are built into real Driver classes, "
        "driven through generated histories, and queried with every class of (device, name) request; the elicited definitions are "
        "compared as a multiset with the expectation derived from the spec and the drivers' public attributes, and every message "
        "emitted on the way is round-tripped through the library's parser. Exploration.",
        "Trusted: harness/drivers.py (spec -> classes builder, attribute-resolution model), harness/refnum.py for number values.",
        "DESIGN.md section 4, C07",
    ),
    "C08": (
        "exploration",
        "exhaustive payload-length sweeps in both directions x fragmentations + Hypothesis policy matrix (single-connection clients, raw peers) + MB payloads (thorough), back-to-back bursts under back-pressure (yielding drains, > 64 KiB and multi-MB), a BLOB-enabled snooping driver, in-place refilled buffers, real zlib payloads under .z formats, read-size alignment measured on the live stack; bit-exactness / no-leak / no-stall oracle through the full stack",
        "Generated-input search through the whole stack: every payload length of the stated ranges is published by a driver and received "
        "by the library Client over its BLOB connection, and uploaded by the Client to the driver, under three fragmentations; Hypothesis "
        "adds formats, BLOB kinds and observers with every policy; a sentinel update after each BLOB proves nothing stalls. Losses are "
        "classified by the necessary condition of known finding D26 (element longer than an enabled threshold on the receiving link); "
        "anything else is a violation.",
        "Trusted: harness/stack.py, harness/net.py; D26a/D26b listed in known_findings.json.",
        "DESIGN.md section 4, C08",
    ),
    "C09": (
        "exploration",
        "exhaustive state-graph enumeration (rule x n x state x operation) + Hypothesis histories, incl. histories that hide and show switches and histories with publishing / fallback / failing handlers, exhaustive declining-Write-handler x client-write enumeration; rule invariants on states and on every published update",
        "Generated search over the complete transition graph of switch vectors up to n=5 (quick) / 6 (thorough) switches: every "
        "(state, operation) pair runs on a fresh driver behind a real Router with a recording client; invariants are checked on the "
        "after-state and on each setSwitchVector published on the way. Exhaustive inside the bound; Hypothesis histories up to n=8.",
        "Trusted: the invariants in harness/props/c09.py (the statement fixes invariants, not which switch stays On).",
        "DESIGN.md section 4, C09",
    ),
    "C10": (
        "exploration",
        "exhaustive resolution-grid and number-grammar enumeration + Hypothesis formats/values (widths to 80, precisions to 60, ambient decimal context varied), text echoed back to a driver's Number element, independent INDI number reference",
        "Generated-input search against an independent reference of the INDI number conventions (harness/refnum.py): complete "
        "resolution grids of the sexagesimal formats on [-360,360], exhaustive grammar strings up to a length bound crossed with "
        "format classes, Hypothesis for printf flags/width/precision and value classes. Exploration with exhaustive parts; the bounds "
        "are in the evidence.",
        "Trusted: harness/refnum.py (sign on the whole magnitude, fields 1/60 apart), tolerance = one resolution unit.",
        "DESIGN.md section 4, C10",
    ),
    "C13": (
        "exploration",
        "exhaustive constrained-field x replacement-catalogue perturbation + Hypothesis random perturbation/random XML (+ atheris in thorough), the catalogue extended by reflection on the tree's vocabulary classes and repeated in a python -O child, independent conformance validator",
        "Generated-input search: every constrained field of every message kind is replaced by every entry of a catalogue (absent, "
        "empty, wrong case, foreign vocabulary, arbitrary, Python-internal looking), plus random multi-perturbations, random XML and a "
        "coverage-guided campaign; whatever the parser accepts is judged by a validator hard-coded from the INDI DTD. Exploration.",
        "Trusted: the validator in harness/props/c13.py (vocabularies, required attributes, number syntax).",
        "DESIGN.md section 4, C13",
    ),
}

NOT_BUILT_REASON = "check not built yet in this session (see DESIGN.md Appendix A); will be claimed once its check runs clean on the unchanged tree"

ALL = [f"C{i:02d}" for i in range(1, 21)]


def main():
    checks = []
    for pid in ALL:
        if pid not in CHECKS:
            continue
        cat, tech, text, note, ref = CHECKS[pid]
        checks.append(
            {
                "property_id": pid,
                "quick_cmd": f"./check {pid} --tier quick",
                "thorough_cmd": f"./check {pid} --tier thorough",
                "evidence_file": f"evidence/{pid}.json",
                "replay_cmd_template": f"./check {pid} --replay {{path}}",
                "engine": "harness",
                "level_claimed": {"category": cat, "text": text, "design_ref": ref},
                "level_note": note,
                "technique": tech,
            }
        )
    manifest = {
        "version": 1,
        "setup_cmd": "./setup.sh",
        "hooks": {
            "guard": "INDIPY_VERIF",
            "enable": "no source hooks are needed: every transport takes its streams as constructor arguments, so the checks drive the real handlers with fake streams and a virtual clock; INDIPY_VERIF is reserved and unused",
            "baseline_off_cmd": "cd /repo && /venv/bin/python -m pytest -q -p no:cacheprovider --timeout=900 tests",
            "source_commits": [],
            "add_only": True,
        },
        "engines": [
            {
                "name": "harness",
                "path": "harness/",
                "serves_properties": sorted(CHECKS),
                "kind_free_text": "Python property-based testing harness: Hypothesis strategies and state machines, exhaustive enumerators of bounded universes, atheris fuzz targets, all executing JSON cases through per-property interpreters with independent oracles; ./check <ID> --tier quick|thorough|--replay FILE",
            }
        ],
        "checks": checks,
        "notes": "exit 0 = held (KNOWN-FINDING lines for findings listed in known_findings.json), exit 1 + VIOLATION line = unlisted violation, exit 2 = harness error. VERIF_SEED selects the Hypothesis seed; VERIF_REPO (default /repo) selects the tree under test.",
        "not_applicable": [{"property_id": pid, "reason": NOT_BUILT_REASON} for pid in ALL if pid not in CHECKS],
    }
    with open(os.path.join(VERIF, "MANIFEST.json"), "w") as f:
        json.dump(manifest, f, indent=1)
        f.write("\n")


if __name__ == "__main__":
    main()
