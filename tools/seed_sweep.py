#!/usr/bin/env python3
"""Sensitivity regression: apply every stored seed (seeded/<name>/patch.diff) to a scratch worktree of
/repo HEAD, run the checks recorded as catching it (meta.json: checks.quick with verdict 'caught') and
report the seeds that are no longer caught. The scratch worktrees live under a temp dir and are removed.

  tools/seed_sweep.py [-j 4] [name ...]
"""
import argparse
import json
import os
import subprocess
import sys
from concurrent.futures import ThreadPoolExecutor

VERIF = os.path.dirname(os.path.dirname(os.path.abspath(__file__)))


def one(name):
    d = os.path.join(VERIF, "seeded", name)
    meta = json.load(open(os.path.join(d, "meta.json")))
    checks = [c for c, v in meta["checks"]["quick"].items() if v["verdict"] == "caught"] or [meta["property"]]
    r = subprocess.run(
        [os.path.join(VERIF, "tools", "mutate.py"), "--patch", os.path.join(d, "patch.diff")] + checks,
        capture_output=True, text=True,
    )
    verdicts = [l for l in r.stdout.splitlines() if l[:3] in checks and ":" in l]
    if not verdicts:
        # nothing ran: most likely the patch no longer applies to /repo HEAD (a fix touched the same lines) - rebase it
        return name, ["PATCH DID NOT APPLY / NOTHING RAN"], (r.stdout + r.stderr)[-600:]
    return name, verdicts, r.stdout[-600:] if r.returncode not in (0,) else ""


def main():
    ap = argparse.ArgumentParser()
    ap.add_argument("-j", type=int, default=3)
    ap.add_argument("names", nargs="*")
    a = ap.parse_args()
    names = a.names or sorted(n for n in os.listdir(os.path.join(VERIF, "seeded")) if os.path.isdir(os.path.join(VERIF, "seeded", n)))
    bad = 0
    with ThreadPoolExecutor(a.j) as ex:
        for name, verdicts, tail in ex.map(one, names):
            ok = verdicts and all("CAUGHT" in v for v in verdicts)
            print(f"{name}: {'ok' if ok else 'NOT CAUGHT'}  {' | '.join(verdicts)}", flush=True)
            if not ok:
                bad += 1
                print(tail, flush=True)
    print(f"{len(names) - bad}/{len(names)} seeds caught")
    return 1 if bad else 0


if __name__ == "__main__":
    sys.exit(main())
