#!/usr/bin/env python3
"""Automatic mutation sweep (sensitivity measurement, not a registered check).

Enumerates first-order mutants of the library files the properties are anchored in (comparison /
boolean operators, negations, boolean and small integer constants, deleted statements, continue<->break),
samples them with a fixed seed, and runs - for every mutant - the quick checks of the properties
anchored in the mutated file (cheapest first, stopping at the first one that reports a violation)
against a scratch worktree (VERIF_REPO). Survivors are listed for manual classification
(equivalent / outside every property / gap in a check).

  tools/mutsweep.py --out /verif/mutants/auto_sweep.jsonl [--sample 200] [--seed 1] [-j 3] [--files f ...]
"""
import argparse
import ast
import json
import os
import random
import shutil
import subprocess
import sys
import tempfile
import time
from concurrent.futures import ThreadPoolExecutor

VERIF = os.path.dirname(os.path.dirname(os.path.abspath(__file__)))
REPO = "/repo"

# rough quick-tier cost order (seconds), cheapest first
COST = {"C19": 6, "C12": 7, "C18": 8, "C14": 8, "C09": 5, "C05": 6, "C04": 8, "C07": 15, "C06": 20, "C16": 18, "C15": 15, "C13": 20,
        "C03": 25, "C20": 15, "C10": 30, "C17": 30, "C11": 40, "C01": 40, "C02": 50, "C08": 50}

CMP = {ast.Eq: "!=", ast.NotEq: "==", ast.Lt: "<=", ast.LtE: "<", ast.Gt: ">=", ast.GtE: ">", ast.Is: "is not", ast.IsNot: "is", ast.In: "not in", ast.NotIn: "in"}
CMP_TXT = {ast.Eq: "==", ast.NotEq: "!=", ast.Lt: "<", ast.LtE: "<=", ast.Gt: ">", ast.GtE: ">=", ast.Is: "is", ast.IsNot: "is not", ast.In: "in", ast.NotIn: "not in"}


# files a property depends on without listing them as anchors (its check exercises them all the same)
EXTRA = {
    "indi/device/snoop.py": ["C01", "C12"],
    "indi/message/get_properties.py": ["C04", "C07"],
    "indi/message/enable_blob.py": ["C04", "C08"],
    "indi/message/news.py": ["C04", "C06", "C12"],
    "indi/message/sets.py": ["C07", "C15"],
    "indi/message/defs.py": ["C15", "C01"],
    "indi/message/del_property.py": ["C05", "C15", "C01"],
    "indi/message/one_parts.py": ["C06", "C15"],
    "indi/message/def_parts.py": ["C15"],
    "indi/message/base.py": ["C05", "C07"],
    "indi/device/events.py": ["C01"],
    "indi/message/pings.py": ["C05", "C04"],
    "indi/message/checks.py": ["C03", "C12"],
    "indi/device/properties/instance/vectors.py": ["C14"],
    "indi/device/properties/definition/elements.py": ["C06", "C14"],
    "indi/client/vectors.py": ["C08"],
}


def anchors():
    m = {}
    for l in open(os.path.join(VERIF, "properties.jsonl")):
        d = json.loads(l)
        for f in d["anchors"]["files"]:
            m.setdefault(f, []).append(d["id"])
    for f, extra in EXTRA.items():
        for c in extra:
            if c not in m.setdefault(f, []):
                m[f].append(c)
    return m


class Src:
    def __init__(self, text):
        self.text = text
        self.lines = text.splitlines(keepends=True)
        self.off = [0]
        for l in self.lines:
            self.off.append(self.off[-1] + len(l))

    def pos(self, lineno, col):
        # col is a utf8 byte offset in ast; the library sources are ascii except a few comments
        line = self.lines[lineno - 1]
        return self.off[lineno - 1] + len(line.encode("utf8")[:col].decode("utf8"))

    def span(self, node):
        return self.pos(node.lineno, node.col_offset), self.pos(node.end_lineno, node.end_col_offset)


def mutants_of(path, rel):
    text = open(path).read()
    src = Src(text)
    tree = ast.parse(text)
    out = []

    def add(a, b, new, kind, lineno):
        old = text[a:b]
        if old == new:
            return
        line = src.lines[lineno - 1]
        if "logger." in line or "logging." in line or "TYPE_CHECKING" in line:
            return
        out.append({"file": rel, "line": lineno, "kind": kind, "a": a, "b": b, "old": old, "new": new, "src": line.strip()[:140]})

    docstrings = set()
    for node in ast.walk(tree):
        if isinstance(node, (ast.FunctionDef, ast.AsyncFunctionDef, ast.ClassDef, ast.Module)) and node.body:
            f = node.body[0]
            if isinstance(f, ast.Expr) and isinstance(f.value, ast.Constant) and isinstance(f.value.value, str):
                docstrings.add(id(f))
    for node in ast.walk(tree):
        if isinstance(node, ast.Compare):
            left = node.left
            for op, right in zip(node.ops, node.comparators):
                a, b = src.span(left)[1], src.span(right)[0]
                between = text[a:b]
                t = CMP_TXT[type(op)]
                i = between.find(t)
                if i >= 0 and type(op) in CMP:
                    add(a + i, a + i + len(t), CMP[type(op)], "cmp", node.lineno)
                left = right
        elif isinstance(node, ast.BoolOp):
            t = "and" if isinstance(node.op, ast.And) else "or"
            for v1, v2 in zip(node.values, node.values[1:]):
                a, b = src.span(v1)[1], src.span(v2)[0]
                i = text[a:b].find(t)
                if i >= 0:
                    add(a + i, a + i + len(t), "or" if t == "and" else "and", "boolop", v1.end_lineno)
        elif isinstance(node, ast.UnaryOp) and isinstance(node.op, ast.Not):
            a, b = src.span(node)
            oa, ob = src.span(node.operand)
            add(a, b, "(" + text[oa:ob] + ")", "not-removed", node.lineno)
        elif isinstance(node, ast.Constant) and isinstance(node.value, bool):
            a, b = src.span(node)
            add(a, b, str(not node.value), "bool-const", node.lineno)
        elif isinstance(node, ast.Constant) and type(node.value) is int and 0 <= node.value <= 4096:
            a, b = src.span(node)
            add(a, b, str(node.value + 1), "int-const", node.lineno)
        elif isinstance(node, ast.If):
            a, b = src.span(node.test)
            add(a, b, "True", "if-true", node.lineno)
            add(a, b, "False", "if-false", node.lineno)
        elif isinstance(node, (ast.Continue, ast.Break)):
            a, b = src.span(node)
            add(a, b, "break" if isinstance(node, ast.Continue) else "continue", "continue-break", node.lineno)
        elif isinstance(node, ast.Return) and node.value is not None and not (isinstance(node.value, ast.Constant) and node.value.value is None):
            a, b = src.span(node)
            add(a, b, "return None", "return-none", node.lineno)
        elif isinstance(node, ast.Expr) and id(node) not in docstrings and isinstance(node.value, (ast.Call, ast.Await)):
            a, b = src.span(node)
            add(a, b, "pass", "stmt-deleted", node.lineno)
        elif isinstance(node, (ast.Assign, ast.AugAssign)) and node.lineno == node.end_lineno:
            tgt = node.targets[0] if isinstance(node, ast.Assign) else node.target
            if isinstance(tgt, (ast.Attribute, ast.Subscript)):  # state updates, not local names (would be NameError)
                a, b = src.span(node)
                add(a, b, "pass", "assign-deleted", node.lineno)
    return out


def run_one(worker_root, mut, checks, seed):
    path = os.path.join(worker_root, mut["file"])
    orig = open(path).read()
    new = orig[:mut["a"]] + mut["new"] + orig[mut["b"]:]
    res = {**{k: mut[k] for k in ("file", "line", "kind", "old", "new", "src")}, "checks": {}}
    try:
        try:
            compile(new, path, "exec")
        except SyntaxError as e:
            res["verdict"] = "does-not-compile"
            return res
        open(path, "w").write(new)
        r = subprocess.run(["/venv/bin/python", "-c", "import indi, indi.client.client, indi.device, indi.routing, indi.transport.server.tcp, indi.transport.server.tty, indi.transport.client.tcp, indi.message"],
                           env={**os.environ, "PYTHONPATH": worker_root}, capture_output=True, text=True, cwd=worker_root)
        if r.returncode != 0:
            res["verdict"] = "does-not-import"
            return res
        res["verdict"] = "survived"
        for c in checks:
            t = time.time()
            r = subprocess.run([os.path.join(VERIF, "check"), c, "--tier", "quick", "--no-evidence"], capture_output=True, text=True,
                               env={**os.environ, "VERIF_REPO": worker_root, "VERIF_SEED": str(seed)})
            first = next((l for l in r.stdout.splitlines() if l.startswith(("violation:", "regression fails", "HARNESS-ERROR"))), "")
            res["checks"][c] = {"rc": r.returncode, "seconds": round(time.time() - t), "first": first[:200]}
            if r.returncode == 1:
                res["verdict"] = "caught"
                res["by"] = c
                break
            if r.returncode == 2:
                # the harness tripped over the broken library: not a verdict; remember it and try the other checks
                res.setdefault("harness_errors", {})[c] = (r.stdout[-600:] + r.stderr[-600:])
        if res["verdict"] == "survived" and res.get("harness_errors"):
            res["verdict"] = "harness-error"
        return res
    finally:
        open(path, "w").write(orig)


def main():
    ap = argparse.ArgumentParser()
    ap.add_argument("--out", required=True)
    ap.add_argument("--sample", type=int, default=200)
    ap.add_argument("--seed", type=int, default=1)
    ap.add_argument("-j", type=int, default=3)
    ap.add_argument("--files", nargs="*")
    ap.add_argument("--list", action="store_true")
    a = ap.parse_args()
    amap = anchors()
    files = a.files or sorted(amap)
    allm = []
    for f in files:
        ms = mutants_of(os.path.join(REPO, f), f)
        allm += ms
    rng = random.Random(a.seed)
    done = set()
    if os.path.exists(a.out):
        for l in open(a.out):
            d = json.loads(l)
            done.add((d["file"], d["line"], d["kind"], d["old"], d["new"]))
    rng.shuffle(allm)
    sample = [m for m in allm if (m["file"], m["line"], m["kind"], m["old"], m["new"]) not in done][: a.sample]
    print(f"{len(allm)} mutants in {len(files)} files; {len(done)} done before; running {len(sample)}", flush=True)
    if a.list:
        for m in sample:
            print(m["file"], m["line"], m["kind"], repr(m["old"]), "->", repr(m["new"]))
        return 0
    tmp = tempfile.mkdtemp(prefix="indipy-mutsweep-")
    roots = []
    try:
        for i in range(a.j):
            root = f"{tmp}/w{i}"
            subprocess.check_call(["git", "-C", REPO, "worktree", "add", "--detach", "-q", root, "HEAD"])
            roots.append(root)
        import queue

        free = queue.Queue()
        for r in roots:
            free.put(r)

        def job(m):
            root = free.get()
            try:
                checks = sorted(amap.get(m["file"], []), key=lambda c: COST.get(c, 99))
                return run_one(root, m, checks, a.seed)
            finally:
                free.put(root)

        n = {"caught": 0, "survived": 0}
        with ThreadPoolExecutor(a.j) as ex, open(a.out, "a") as out:
            for res in ex.map(job, sample):
                out.write(json.dumps(res) + "\n")
                out.flush()
                n[res["verdict"]] = n.get(res["verdict"], 0) + 1
                print(f"{res['verdict']:>16} {res.get('by', ''):4} {res['file']}:{res['line']} {res['kind']} {res['old']!r} -> {res['new']!r}", flush=True)
        print(n)
    finally:
        for r in roots:
            subprocess.run(["git", "-C", REPO, "worktree", "remove", "--force", r], capture_output=True)
        shutil.rmtree(tmp, ignore_errors=True)
    return 0


if __name__ == "__main__":
    sys.exit(main())
