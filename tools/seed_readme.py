#!/usr/bin/env python3
"""Regenerates seeded/README.md from seeded/*/meta.json; the prose columns live in seeded/annotations.json."""
import json
import os

VERIF = os.path.dirname(os.path.dirname(os.path.abspath(__file__)))
ann = json.load(open(os.path.join(VERIF, "seeded", "annotations.json")))
rows = []
for name in sorted(os.listdir(os.path.join(VERIF, "seeded"))):
    p = os.path.join(VERIF, "seeded", name, "meta.json")
    if not os.path.exists(p):
        continue
    m = json.load(open(p))
    a = ann.get(name, {})
    for k in ("breaks", "needs", "detection"):
        if k in a:
            m[k] = a[k]
    json.dump(m, open(p, "w"), indent=1)
    verdicts = []
    for tier, res in m.get("checks", {}).items():
        verdicts += [f"{c} ({tier}): {r['verdict']}" for c, r in res.items()]
    rows.append((name, m["property"], m.get("breaks", ""), m.get("needs", ""), "; ".join(verdicts), m.get("detection", "")))
with open(os.path.join(VERIF, "seeded", "README.md"), "w") as f:
    f.write(
        "# Seeded changes\n\nWritten by independent sub-agents that saw only the property text and a scratch worktree; each was re-confirmed with "
        "`tools/seed_eval.py` (patch applies to /repo HEAD, `demo_seed.py` exits 0 without and 1 with the change, the repository's 333 tests pass "
        "with it) and then run against the checks with `VERIF_REPO=<scratch tree>`. To run a check against one by hand: "
        "`git -C /repo apply seeded/<name>/patch.diff; ./check <ID>; git -C /repo checkout -- .`\n\n"
        "| seed | property | what the change does | what it needs to manifest | result | notes |\n|---|---|---|---|---|---|\n"
    )
    for r in rows:
        f.write("| " + " | ".join(r) + " |\n")
print(len(rows), "seeds")
