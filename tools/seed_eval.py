#!/usr/bin/env python3
"""Confirm a seeded change delivered by a sub-agent and measure which checks catch it.

  tools/seed_eval.py <property id> <agent worktree> <seed name> [--checks C01 C06 ...] [--tier quick]

Steps (all in a fresh scratch worktree of /repo HEAD, removed afterwards):
  1. seed.patch applies cleanly and touches only indi/
  2. demo_seed.py passes on the unchanged tree and fails with the patch
  3. the repository's test suite passes with the patch
  4. the listed checks (default: the property's own) are run with VERIF_REPO=<scratch>
If 1-3 hold the seed is stored as /verif/seeded/<seed name>/ (patch.diff, demo_seed.py, notes.md, meta.json).
"""
import argparse
import json
import os
import shutil
import subprocess
import sys
import tempfile
import time

VERIF = os.path.dirname(os.path.dirname(os.path.abspath(__file__)))


def sh(cmd, cwd=None, env=None, timeout=3600):
    r = subprocess.run(cmd, cwd=cwd, env=env, capture_output=True, text=True, timeout=timeout)
    return r.returncode, r.stdout, r.stderr


def main():
    ap = argparse.ArgumentParser()
    ap.add_argument("pid")
    ap.add_argument("worktree")
    ap.add_argument("name")
    ap.add_argument("--checks", nargs="*")
    ap.add_argument("--tier", default="quick")
    ap.add_argument("--skip-suite", action="store_true")
    a = ap.parse_args()
    src = a.worktree
    patch = os.path.join(src, "seed.patch")
    demo = os.path.join(src, "demo_seed.py")
    for f in (patch, demo):
        if not os.path.exists(f):
            print(f"MISSING {f}")
            return 2
    files = [l[6:].strip() for l in open(patch) if l.startswith("+++ b/")]
    if not files or any(not f.startswith("indi/") for f in files):
        print(f"REJECT: patch touches {files}")
        return 2
    tmp = tempfile.mkdtemp(prefix="indipy-seed-")
    root = tmp + "/w"
    meta = {"property": a.pid, "name": a.name, "files": files, "ran": []}
    try:
        subprocess.check_call(["git", "-C", "/repo", "worktree", "add", "--detach", "-q", root, "HEAD"])
        shutil.copy(demo, root + "/demo_seed.py")
        env = {**os.environ, "PYTHONPATH": root, "PYTHONHASHSEED": "0"}
        rc0, out0, err0 = sh(["/venv/bin/python", "demo_seed.py"], cwd=root, env=env, timeout=600)
        meta["demo_unchanged"] = {"rc": rc0, "tail": (out0 + err0)[-300:]}
        rc, out, err = sh(["git", "-C", root, "apply", patch])
        if rc != 0:
            print("REJECT: patch does not apply to /repo HEAD:", err[-500:])
            return 2
        rc1, out1, err1 = sh(["/venv/bin/python", "demo_seed.py"], cwd=root, env=env, timeout=600)
        meta["demo_changed"] = {"rc": rc1, "tail": (out1 + err1)[-300:]}
        print(f"demo: unchanged rc={rc0}, changed rc={rc1}")
        ok = rc0 == 0 and rc1 != 0
        if not a.skip_suite:
            t = time.time()
            rcs, outs, errs = sh(["/venv/bin/python", "-m", "pytest", "-q", "-p", "no:cacheprovider", "tests"], cwd=root, env=env, timeout=1800)
            last = outs.strip().splitlines()[-1] if outs.strip() else errs[-200:]
            meta["suite_with_change"] = last
            print(f"suite with change: {last} ({time.time() - t:.0f}s)")
            ok = ok and rcs == 0
        checks = a.checks or [a.pid]
        results = {}
        for c in checks:
            t = time.time()
            rcc, outc, errc = sh([os.path.join(VERIF, "check"), c, "--tier", a.tier, "--no-evidence"], env={**os.environ, "VERIF_REPO": root, "VERIF_SEED": os.environ.get("VERIF_SEED", "1")}, timeout=7200)
            lines = [l for l in outc.splitlines() if l.startswith(("violation:", "regression fails", "HARNESS-ERROR"))]
            verdict = {0: "missed", 1: "caught", 2: "harness-error"}.get(rcc, f"rc{rcc}")
            results[c] = {"verdict": verdict, "seconds": round(time.time() - t), "first": (lines[0][:400] if lines else "")}
            print(f"{c} [{a.tier}]: {verdict} in {time.time() - t:.0f}s  {lines[0][:300] if lines else ''}")
            if rcc == 2:
                print(outc[-1500:], errc[-1500:])
        meta["checks"] = {a.tier: results}
        meta["confirmed"] = bool(ok)
        if ok:
            dst = os.path.join(VERIF, "seeded", a.name)
            os.makedirs(dst, exist_ok=True)
            shutil.copy(patch, dst + "/patch.diff")
            shutil.copy(demo, dst + "/demo_seed.py")
            notes = os.path.join(src, "SEED_NOTES.md")
            if os.path.exists(notes):
                shutil.copy(notes, dst + "/notes.md")
            old = {}
            if os.path.exists(dst + "/meta.json"):
                old = json.load(open(dst + "/meta.json"))
                prev = old.get("checks", {})
                prev.update(meta["checks"])
                meta["checks"] = prev
                for k in ("needs", "breaks", "suite_with_change"):
                    if k in old and k not in meta:
                        meta[k] = old[k]
            meta["ran"] = [
                "git apply patch.diff in a scratch worktree of /repo HEAD",
                "PYTHONPATH=<scratch> /venv/bin/python demo_seed.py  (unchanged: exit 0, changed: exit 1)",
                "PYTHONPATH=<scratch> /venv/bin/python -m pytest -q -p no:cacheprovider tests  (with the change)",
                f"VERIF_REPO=<scratch> ./check <ID> --tier {a.tier} --no-evidence",
            ]
            json.dump(meta, open(dst + "/meta.json", "w"), indent=1)
            print(f"stored seeded/{a.name}")
        else:
            print("NOT CONFIRMED:", json.dumps(meta)[:800])
        return 0 if ok else 1
    finally:
        subprocess.run(["git", "-C", "/repo", "worktree", "remove", "--force", root], capture_output=True)
        shutil.rmtree(tmp, ignore_errors=True)


if __name__ == "__main__":
    sys.exit(main())
