"""Reference router (C04/C05 as written in the property statements), recording endpoints and the
interpreter that applies a JSON history to a real indi.routing.Router and to the model."""
from __future__ import annotations

from hypothesis import strategies as st

from harness import gen
from harness.core import Failure

DEVNAMES = ["A", "B", None, "Z"]  # Z = unknown device
POLICIES = ["Never", "Also", "Only"]

CLIENT_KINDS = ["getProperties", "enableBLOB", "pingReply", "newTextVector", "newNumberVector", "newSwitchVector", "newBLOBVector"]
DEVICE_KINDS = (
    [f"def{k}Vector" for k in gen.VKINDS] + [f"set{k}Vector" for k in gen.VKINDS] + ["delProperty", "message", "pingRequest", "getProperties", "oneLight"]
)
NO_DEVICE_ATTR = {"pingRequest", "pingReply", "oneLight"}
DEVICE_OPTIONAL = {"getProperties", "message"}


def make_message(kind, device, value="Also"):
    """A library message of `kind` addressed to `device` (None where the kind allows it)."""
    attrs = {}
    req, opt, trule, child = gen.MESSAGES[kind]
    rep = {"name": "p", "version": "1.7", "uid": "u", "state": "Ok", "perm": "rw", "rule": "AnyOfMany"}
    for a in req:
        if a != "device":
            attrs[a] = rep[a]
    if kind not in NO_DEVICE_ATTR:
        if device is not None:
            attrs["device"] = device
        elif kind not in DEVICE_OPTIONAL:
            attrs["device"] = "A"
    # (a value that arrives from the wire is a string created at run time: equal to the vocabulary constant, not the same object)
    text = "".join(list(value)) if trule == "blobenable" else "Ok" if trule == "state" else None
    children = []
    if child:
        preq, popt, prule = gen.PARTS[child]
        prep = {"name": "e", "format": "%f", "min": "0", "max": "0", "step": "0", "size": "3"}
        ptext = {"free": "t", "number": "1", "switch": "On", "state": "Ok", "base64": "QUJD"}[prule]
        children = [{"kind": child, "attrs": {a: prep[a] for a in preq}, "text": ptext}]
    return gen.build({"kind": kind, "attrs": attrs, "text": text, "children": children})


def message_device(kind, device):
    if kind in NO_DEVICE_ATTR:
        return None
    if device is None and kind not in DEVICE_OPTIONAL:
        return "A"
    return device


class RefRouter:
    """The statements of C04 and C05, nothing else."""

    def __init__(self):
        self.devices = []  # (id, accepts-predicate)
        self.clients = []  # ids
        self.policy = {}  # client id -> {device name: policy}

    def register_device(self, did, accepts):
        self.devices.append((did, accepts))

    def register_client(self, cid):
        self.clients.append(cid)
        self.policy[cid] = {}

    def unregister_client(self, cid):
        if cid in self.clients:
            self.clients.remove(cid)
        self.policy.pop(cid, None)

    def send(self, kind, devname, sender, value=None):
        """-> sorted list of (endpoint id) deliveries"""
        out = []
        from_client = kind in CLIENT_KINDS
        from_device = kind in DEVICE_KINDS
        if from_client:
            if kind == "enableBLOB" and sender in self.policy:
                self.policy[sender][devname] = value
            for did, accepts in self.devices:
                if did != sender and accepts(devname):
                    out.append(did)
        if from_device:
            is_blob = kind == "setBLOBVector"
            for cid in self.clients:
                if cid == sender:
                    continue
                pol = self.policy.get(cid, {}).get(devname, "Never")
                if (is_blob and pol in ("Also", "Only")) or (not is_blob and pol in ("Never", "Also")):
                    out.append(cid)
        return sorted(out)


class World:
    """A real Router with recording endpoints plus the reference model, driven by JSON ops."""

    def __init__(self, ndev=3, ncli=3):
        from indi.device import Driver, properties
        from indi.routing import Client, Device, Router

        world = self
        self.log = []

        class RecDevice(Device):
            def __init__(self, did, name):
                self.did, self.devname = did, name
                self.inbox = []

            def accepts(self, device):
                return self.devname == "*" or device is None or device == self.devname

            def message_from_client(self, message):
                world.log.append((self.did, message))
                self.inbox.append(message)

            # endpoints are containers of what they received (an application's choice): EMPTY ONES ARE FALSY, which must not
            # matter to the router (`if sender:` is not `if sender is not None:`)
            inbox = None

            def __len__(self):
                return len(self.inbox)

        class RecClient(Client):
            def __init__(self, cid):
                self.cid = cid
                self.inbox = []

            def message_from_device(self, message):
                world.log.append((self.cid, message))
                self.inbox.append(message)

            def __len__(self):
                return len(self.inbox)

        class RealDriver(Driver):
            # the library's own Driver (its accepts() and name handling), recording instead of acting
            name = "A"
            g = properties.Group("G", vectors=dict(t=properties.TextVector("T", elements=dict(e=properties.Text("E")))))

            def message_from_client(self, message):
                world.log.append(("dA", message))

        self.router = Router()
        self.model = RefRouter()
        self.dev_objs = {"dA": RealDriver(), "dB": RecDevice("dB", "B"), "dC": RecDevice("dC", "*")}
        self.dev_accepts = {
            "dA": lambda d: d is None or d == "A",
            "dB": lambda d: d is None or d == "B",
            "dC": lambda d: True,
        }
        self.dev_ids = ["dA", "dB", "dC"][:ndev]
        self.cli_ids = [f"c{i}" for i in range(ncli)]
        self.cli_objs = {cid: RecClient(cid) for cid in self.cli_ids}
        self.registered_devs = []

    # -- endpoints -------------------------------------------------------------------
    def obj(self, eid):
        if eid is None:
            return None
        return self.dev_objs[eid] if eid in self.dev_objs else self.cli_objs[eid]

    def senders(self):
        return self.cli_ids + self.dev_ids + [None]

    # -- ops ---------------------------------------------------------------------------
    def apply(self, op):
        """op: dict. Returns (kind-of-op, detail) ; raises Failure on disagreement."""
        t = op["op"]
        try:
            if t == "regdev":
                did = self.dev_ids[op["i"] % len(self.dev_ids)]
                if did in self.registered_devs:
                    return "noop"
                self.registered_devs.append(did)
                self.router.register_device(self.dev_objs[did])
                self.model.register_device(did, self.dev_accepts[did])
            elif t == "reg":
                cid = self.cli_ids[op["i"] % len(self.cli_ids)]
                if cid in self.model.clients:
                    return "noop"  # a connection registers once (precondition of every caller)
                self.router.register_client(self.cli_objs[cid])
                self.model.register_client(cid)
            elif t == "unreg":
                cid = self.cli_ids[op["i"] % len(self.cli_ids)]
                self.router.unregister_client(self.cli_objs[cid])
                self.model.unregister_client(cid)
            elif t == "send":
                return self._send(op)
            else:
                raise AssertionError(t)
        except Failure:
            raise
        except Exception as e:  # noqa
            raise Failure(f"raises:{t}:{type(e).__name__}", f"{op}: {type(e).__name__}: {e}")
        self.compare_state(op)
        return t

    def _send(self, op):
        senders = self.senders()
        sender = senders[op["sender"] % len(senders)]
        kind = op["kind"]
        devname = DEVNAMES[op["dev"] % len(DEVNAMES)]
        value = POLICIES[op.get("value", 0) % 3]
        devname = message_device(kind, devname)
        msg = make_message(kind, devname, value)
        self.log.clear()
        try:
            self.router.process_message(msg, sender=self.obj(sender))
        except Exception as e:  # noqa
            reg = "registered" if (sender in self.model.clients) else "unregistered"
            raise Failure(f"raises:send:{kind}:{type(e).__name__}:sender-{reg}", f"{op} -> {type(e).__name__}: {e!r}")
        got = sorted(eid for eid, m in self.log)
        for eid, m in self.log:
            if m is not msg:
                raise Failure("delivered-other-object", f"{op}: endpoint {eid} received a different message object")
        want = self.model.send(kind, devname, sender, value)
        if got != want:
            pol = {c: self.model.policy.get(c, {}).get(devname, "unset") for c in self.model.clients}
            missing = [e for e in want if e not in got]
            extra = [e for e in got if e not in want or got.count(e) > want.count(e)]
            side = "client" if any(str(e).startswith("c") for e in missing + extra) else "device"
            blob = "blob" if kind == "setBLOBVector" else "nonblob"
            polset = sorted({pol.get(e, "-") for e in missing + extra if str(e).startswith("c")})
            raise Failure(
                f"delivery-differs:{side}:{blob}:{'missing' if missing else 'extra'}:{'+'.join(polset)}",
                f"{op} kind={kind} dev={devname} sender={sender}: delivered to {got}, expected {want} (policies for this device {pol}, devices {self.registered_devs})",
            )
        self.compare_state(op)
        return ("send", kind, devname, sender, want)

    def compare_state(self, op):
        r = self.router
        got_clients = sorted(c.cid for c in r.clients)
        if got_clients != sorted(self.model.clients):
            raise Failure("state-differs:clients", f"after {op}: router.clients={got_clients}, model={sorted(self.model.clients)}")
        got_pol = {getattr(k, "cid", repr(k)): dict(v) for k, v in r.blob_routing.items()}
        want_pol = {k: dict(v) for k, v in self.model.policy.items()}
        if got_pol != want_pol:
            raise Failure("state-differs:policy", f"after {op}: router.blob_routing={got_pol}, model={want_pol}")


# --------------------------------------------------------------------------------------------
# strategies

op_strategy = st.one_of(
    st.fixed_dictionaries({"op": st.just("regdev"), "i": st.integers(0, 5)}),
    st.fixed_dictionaries({"op": st.just("reg"), "i": st.integers(0, 5)}),
    st.fixed_dictionaries({"op": st.just("unreg"), "i": st.integers(0, 5)}),
    st.fixed_dictionaries({"op": st.just("send"), "kind": st.just("enableBLOB"), "dev": st.integers(0, 1), "sender": st.integers(0, 5), "value": st.integers(0, 2)}),
    st.fixed_dictionaries({"op": st.just("send"), "kind": st.sampled_from(CLIENT_KINDS), "dev": st.integers(0, 3), "sender": st.integers(0, 12), "value": st.integers(0, 2)}),
    st.fixed_dictionaries({"op": st.just("send"), "kind": st.sampled_from(DEVICE_KINDS), "dev": st.integers(0, 3), "sender": st.integers(0, 12)}),
    st.fixed_dictionaries({"op": st.just("send"), "kind": st.just("setBLOBVector"), "dev": st.integers(0, 1), "sender": st.integers(6, 12)}),
)


def history(max_ops=40):
    return st.fixed_dictionaries(
        {
            "ndev": st.integers(1, 3),
            "ncli": st.integers(1, 6),
            "ops": st.lists(op_strategy, min_size=1, max_size=max_ops),
        }
    )
