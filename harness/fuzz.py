"""atheris (libFuzzer) campaigns with the semantic oracle inside the target.

Parent side: run_atheris(ctx, sub, target, runs) spawns `python -m harness.fuzz <target> ...` once
with an empty corpus and once with a seeded corpus, collects executions / non-trivial counts from
the child's stats file and converts a crash into a JSON replay (the child writes the decoded case
before raising). Child side: main().

libFuzzer's -seed pins a campaign only approximately; the reproducible unit is the saved case.
"""
from __future__ import annotations

import json
import os
import shutil
import subprocess
import sys
import tempfile

VERIF = os.path.dirname(os.path.dirname(os.path.abspath(__file__)))
REPO = os.path.abspath(os.environ.get("VERIF_REPO", "/repo"))

DICT_WORDS = (
    ["<", ">", "</", "/>", "=", '"', "'", "&amp;", "&lt;", "<!--", "-->", "<![CDATA[", "]]>", "<?xml version=\"1.0\"?>"]
    + ["Idle", "Ok", "Busy", "Alert", "ro", "wo", "rw", "OneOfMany", "AtMostOne", "AnyOfMany", "On", "Off", "Never", "Also", "Only"]
    + ["device", "name", "state", "perm", "rule", "label", "group", "timestamp", "message", "timeout", "version", "uid", "size", "format", "min", "max", "step"]
    + ["indi.message.const", "None", "__doc__"]
)


# --------------------------------------------------------------------------------------------
# decoders: bytes -> JSON case (hand-written, so that a crash is re-encoded as a plain replay)


def decode_c11(data: bytes):
    if len(data) < 2:
        return None
    thr = [16, 128, 2048, None][data[0] % 4]
    mode = data[1]
    body = data[2:]
    if mode % 8 == 7:
        cuts = "charwise"
    else:
        n = mode % 6
        cuts = [int.from_bytes(body[2 * i:2 * i + 2], "big") for i in range(n) if len(body) >= 2 * i + 2]
        body = body[2 * n:]
    text = body.decode("latin1")
    if len(text) > 600:
        return None
    return {"text": text, "cuts": cuts, "threshold": thr}


def decode_c13(data: bytes):
    if len(data) > 800:
        return None
    return {"xml": data.decode("latin1"), "perturbed": [], "labels": []}


TARGETS = {
    "c11": ("harness.props.c11", "check_raw", decode_c11),
    "c13": ("harness.props.c13", "check_xml", decode_c13),
}


def seed_inputs(target):
    from harness import gen
    from harness.props import c02

    short, medium = c02.corpus()
    out = []
    for stream in short + medium:
        text = "".join(gen.render_foreign(it["spec"], it.get("choices") or [0]) for it in stream)
        out.append(text.encode("latin1", "replace"))
    if target == "c11":
        return [bytes([i % 4, (i * 3) % 8]) + b"\x00\x05\x00\x11" * ((i * 3) % 8 % 6) + t for i, t in enumerate(out)]
    return out


# --------------------------------------------------------------------------------------------
# parent


def run_atheris(ctx, sub, target, runs, max_len=512):
    if runs <= 0:
        return
    try:
        sys.path.append(os.path.join(VERIF, ".deps"))
        import atheris  # noqa: F401
    except Exception as e:  # noqa
        ctx.notes[f"{sub}-skipped"] = f"atheris not importable: {e}"
        return
    for corpus_kind in ("empty", "seeded"):
        work = tempfile.mkdtemp(prefix=f"indipy-fuzz-{target}-")
        try:
            corpus = os.path.join(work, "corpus")
            os.makedirs(corpus)
            if corpus_kind == "seeded":
                for i, b in enumerate(seed_inputs(target)):
                    with open(os.path.join(corpus, f"seed{i}"), "wb") as f:
                        f.write(b)
            with open(os.path.join(work, "dict"), "w") as f:
                from harness import buf

                for w in DICT_WORDS + ["<" + t for t in buf.KNOWN_TAGS]:
                    f.write('"' + "".join(c if c.isalnum() else f"\\x{ord(c):02x}" for c in w) + '"\n')
            env = dict(os.environ, VERIF_REPO=REPO, PYTHONHASHSEED="0", FUZZ_WORK=work)
            cmd = [
                sys.executable, "-m", "harness.fuzz", target, corpus, f"-runs={runs // 2}", f"-seed={ctx.seed_for(sub + corpus_kind) % (2**31 - 1) + 1}",
                f"-max_len={max_len}", f"-dict={work}/dict", f"-artifact_prefix={work}/crash-", "-print_final_stats=1", "-timeout=60",
            ]
            r = subprocess.run(cmd, cwd=VERIF, env=env, capture_output=True, text=True, timeout=3 * 3600)
            stats = {}
            sp = os.path.join(work, "stats.json")
            if os.path.exists(sp):
                with open(sp) as f:
                    stats = json.load(f)
            execs = stats.get("executions", 0)
            ctx.evaluations += execs
            ctx.sub_evals[sub] += execs
            ctx.block_nontrivial += stats.get("distinct_nontrivial", 0)
            ctx.sub_nontrivial[sub] += stats.get("distinct_nontrivial", 0)
            ctx.classes[f"{sub}:{corpus_kind}-corpus-executions"] += execs
            for k, v in stats.get("labels", {}).items():
                ctx.classes[f"{sub}:{k}"] += v
            for s in stats.get("samples", [])[:1]:
                ctx.samples.append({"subcheck": sub, "case": s})
            fp = os.path.join(work, "failure.json")
            if os.path.exists(fp):
                with open(fp) as f:
                    fail = json.load(f)
                from harness.core import Failure

                fobj = Failure(fail["sig"], fail["msg"])
                try:
                    ctx.execute(sub, ctx.subchecks[sub], fail["case"])
                    ctx.notes[f"{sub}-unreproducible"] = fail
                except Failure as f2:
                    ctx.add_violation(sub, fail["case"], f2)
                del fobj
            elif r.returncode != 0:
                from harness.core import HarnessError

                raise HarnessError(f"atheris child failed rc={r.returncode}: {r.stderr[-2000:]}")
        finally:
            shutil.rmtree(work, ignore_errors=True)


# --------------------------------------------------------------------------------------------
# child


def main():
    target = sys.argv[1]
    work = os.environ["FUZZ_WORK"]
    sys.path.insert(0, REPO)
    sys.path.append(os.path.join(VERIF, ".deps"))
    import logging

    logging.disable(logging.CRITICAL)
    import atheris

    with atheris.instrument_imports(include=["indi"]):
        import indi.message  # noqa
        import indi.transport  # noqa
    import importlib

    from harness import core

    modname, fnname, decode = TARGETS[target]
    mod = importlib.import_module(modname)
    fn = getattr(mod, fnname)
    known = [e for e in core.load_known(mod.ID) if e.get("status") == "open"]
    stats = {"executions": 0, "distinct_nontrivial": 0, "labels": {}, "samples": [], "known_hits": 0}
    seen = set()

    def dump():
        with open(os.path.join(work, "stats.json"), "w") as f:
            json.dump(stats, f)

    def one(data):
        case = decode(data)
        stats["executions"] += 1
        if case is None:
            return
        try:
            with core.deadline(20):
                info = fn(case)
        except core.Failure as f:
            if any(core.finding_matches(e, f"fuzz:{f.sig}") for e in known):
                stats["known_hits"] += 1
                return
            with open(os.path.join(work, "failure.json"), "w") as fh:
                json.dump({"sig": f.sig, "msg": f.msg[:3000], "case": case}, fh)
            dump()
            raise
        except core.Hang as h:
            with open(os.path.join(work, "failure.json"), "w") as fh:
                json.dump({"sig": "hang", "msg": str(h), "case": case}, fh)
            dump()
            raise RuntimeError("hang")
        if info is not None and info.nontrivial:
            h = core.case_hash(case)
            if h not in seen:
                seen.add(h)
                stats["distinct_nontrivial"] += 1
                if len(stats["samples"]) < 2:
                    stats["samples"].append(case)
            for lab in info.labels:
                stats["labels"][lab] = stats["labels"].get(lab, 0) + 1
        if stats["executions"] % 500 == 0:
            dump()

    atheris.Setup([sys.argv[0]] + sys.argv[2:], one)
    try:
        atheris.Fuzz()
    finally:
        dump()


if __name__ == "__main__":
    main()
