"""Server->client message streams over a small universe (C15, C16): 2-3 device names x 3 property
names whose kind varies x 4 element names, so that redefinition (also with another kind), partial
updates, kind mismatches, unknown targets, empty/absent BLOB payloads and named / whole-device
deletion all occur."""
from __future__ import annotations

import base64

from hypothesis import strategies as st

from harness import gen

DEVS = ["A", "B", "A", "AB"]  # AB: a name that contains another name
PROPS = ["P", "PQ", "R"]
ELEMS = ["x", "xy", "z", "w"]
KINDS = gen.VKINDS

value_by_kind = {
    "Text": st.none() | st.sampled_from(["a", "b", "hello world", "<&>", "é"]),
    "Number": st.none() | st.sampled_from(["0", "1", "1.5", "-0:30", "12:30:00", "  7"]),
    "Switch": st.sampled_from(gen.SWITCH),
    "Light": st.sampled_from(gen.STATES),
}


@st.composite
def def_msg(draw):
    k = draw(st.sampled_from(KINDS))
    attrs = {"device": draw(st.sampled_from(DEVS)), "name": draw(st.sampled_from(PROPS)), "state": draw(st.sampled_from(gen.STATES))}
    if k != "Light":
        attrs["perm"] = draw(st.sampled_from(gen.PERMS))
    if k == "Switch":
        attrs["rule"] = draw(st.sampled_from(gen.RULES))
    if draw(st.booleans()):
        attrs["label"] = draw(st.sampled_from(["L", "l 2"]))
    if draw(st.booleans()):
        attrs["group"] = draw(st.sampled_from(["G", "H"]))
    # (a definition without elements is unusual but the parser accepts it; the client must still track its state)
    names = draw(st.lists(st.sampled_from(ELEMS[:3]), unique=True, min_size=0, max_size=3))
    children = []
    for n in names:
        ca = {"name": n}
        if draw(st.booleans()):
            ca["label"] = n.upper()
        if k == "Number":
            ca.update({"format": "%f", "min": "0", "max": "0", "step": "0"})
        text = None if k == "BLOB" else draw(value_by_kind[k])
        children.append({"kind": f"def{k}", "attrs": ca, "text": text})
    return {"kind": f"def{k}Vector", "attrs": attrs, "text": None, "children": children}


@st.composite
def one_child(draw, k, n):
    ca = {"name": n}
    if k == "BLOB":
        payload = draw(st.sampled_from([b"", b"", b"abc", b"\x00\xff\x10", b"0123456789" * 3]))
        fmt = draw(st.sampled_from([".bin", ".fits", "", ".bin", ".fits", ".fits.z", ".z"]))
        # the declared size: normally the payload length; for a compressed format the length of the uncompressed
        # data (anything); occasionally inconsistent or not an integer (truncated transfer, sloppy server)
        size = str(len(payload))
        if fmt.endswith(".z"):
            size = draw(st.sampled_from([size, "2880", "100"]))
        elif draw(st.integers(0, 5)) == 0:
            size = draw(st.sampled_from([str(len(payload) + 7), "12.0", "-1"]))
        ca.update({"size": size, "format": fmt})
        text = base64.b64encode(payload).decode() or None
    else:
        text = draw(value_by_kind[k])
    return {"kind": f"one{k}", "attrs": ca, "text": text}


@st.composite
def set_msg(draw):
    k = draw(st.sampled_from(KINDS))
    attrs = {"device": draw(st.sampled_from(DEVS)), "name": draw(st.sampled_from(PROPS)), "state": draw(st.sampled_from(gen.STATES))}
    names = draw(st.lists(st.sampled_from(ELEMS), unique=True, min_size=0, max_size=3))
    children = [draw(one_child(k, n)) for n in names]
    return {"kind": f"set{k}Vector", "attrs": attrs, "text": None, "children": children}


@st.composite
def set_for(draw, def_spec):
    """An update aimed at an earlier definition: same device, property and kind, a subset of its elements (sometimes
    plus one it does not have)."""
    k = def_spec["kind"][3:-6]
    attrs = {"device": def_spec["attrs"]["device"], "name": def_spec["attrs"]["name"], "state": draw(st.sampled_from(gen.STATES))}
    have = [c["attrs"]["name"] for c in def_spec["children"]]
    names = draw(st.lists(st.sampled_from(have + ["w"]), unique=True, min_size=0, max_size=3)) if have else draw(st.lists(st.just("w"), max_size=1))
    children = [draw(one_child(k, n)) for n in names]
    return {"kind": f"set{k}Vector", "attrs": attrs, "text": None, "children": children}


@st.composite
def del_msg(draw):
    attrs = {"device": draw(st.sampled_from(DEVS))}
    if draw(st.sampled_from([True, True, False])):
        attrs["name"] = draw(st.sampled_from(PROPS + ["NOSUCH"]))
    return {"kind": "delProperty", "attrs": attrs, "text": None, "children": []}


other_msg = st.sampled_from(
    [
        {"kind": "message", "attrs": {"device": "A", "message": "hello"}, "text": None, "children": []},
        {"kind": "message", "attrs": {}, "text": None, "children": []},
        {"kind": "pingRequest", "attrs": {"uid": "7"}, "text": None, "children": []},
        {"kind": "getProperties", "attrs": {"version": "1.7"}, "text": None, "children": []},
        {"kind": "getProperties", "attrs": {"version": "1.7", "device": "A", "name": "P"}, "text": None, "children": []},
    ]
)


def stream_msg():
    return st.one_of(def_msg(), def_msg(), set_msg(), set_msg(), set_msg(), del_msg(), other_msg)


@st.composite
def stream(draw, max_len=40):
    items = draw(st.lists(st.fixed_dictionaries({"spec": stream_msg(), "choices": st.none() | gen.choices}), min_size=1, max_size=max_len))
    # servers repeat themselves (every getProperties is answered with the same definitions again): some messages of the
    # stream are verbatim copies of an earlier one, with other traffic in between
    import copy

    for src, gap in draw(st.lists(st.tuples(st.integers(0, 1000), st.integers(0, 6)), max_size=4)):
        s_ = src % len(items)
        items.insert(min(len(items), s_ + 1 + gap), copy.deepcopy(items[s_]))
    # updates aimed at definitions of the stream (drawn independently, updates rarely hit a property of their own kind)
    for src, gap in draw(st.lists(st.tuples(st.integers(0, 1000), st.integers(0, 4)), max_size=5)):
        defs = [i for i, it in enumerate(items) if it["spec"]["kind"].startswith("def")]
        if not defs:
            break
        di = defs[src % len(defs)]
        aimed = {"spec": draw(set_for(items[di]["spec"])), "choices": draw(st.none() | gen.choices)}
        items.insert(min(len(items), di + 1 + gap), aimed)
    # time stamps are the sender's business: a server may repeat them (one-second resolution), its clock may step back, it
    # may stamp data with the time it was taken; the mirror follows the ORDER of the messages
    if draw(st.booleans()):
        pool = ["2026-10-02T12:00:01", "2026-10-02T12:00:01", "2026-10-02T12:00:00.500000", "2026-10-02T11:59:59", "2026-10-02T12:00:02.25"]
        for it in items:
            k = it["spec"]["kind"]
            if (k.startswith("def") or k.startswith("set")) and k.endswith("Vector") and draw(st.integers(0, 3)):
                it["spec"]["attrs"]["timestamp"] = draw(st.sampled_from(pool))
    # a camera streaming frames of one size: consecutive setBLOBVector messages that agree in everything (time stamp of
    # one-second resolution, state, names, formats, sizes) except the payload
    import base64

    blob_sets = [i for i, it in enumerate(items) if it["spec"]["kind"] == "setBLOBVector" and any(c.get("text") for c in it["spec"]["children"])]
    for src, gap in draw(st.lists(st.tuples(st.integers(0, 1000), st.integers(0, 2)), max_size=2)) if blob_sets else []:
        i = blob_sets[src % len(blob_sets)]
        if items[i]["spec"]["kind"] != "setBLOBVector":
            continue
        twin = copy.deepcopy(items[i])
        for c in twin["spec"]["children"]:
            if c["kind"] == "oneBLOB" and c.get("text"):
                try:
                    raw = base64.b64decode(c["text"], validate=True)
                except Exception:  # noqa
                    continue
                c["text"] = base64.b64encode(bytes(b ^ 0x5A for b in raw)).decode()
        pos = min(len(items), i + 1 + gap)
        items.insert(pos, twin)
        blob_sets = [k + 1 if k >= pos else k for k in blob_sets]
    return items


# Names are opaque strings: firmware exposes arrays as `relay[0]`, devices call themselves `MCU [ttyUSB0]`. A case may be
# renamed bijectively as a whole (the stream, the filters, the targets of writes), which must not change anything.
RENAMES = {
    1: {"B": "M [tty0]", "AB": "M tty0", "P": "P[1]", "PQ": "P1", "R": "R*", "x": "x[0]", "xy": "x0", "z": "z?", "w": "w*", "y": "x[0-9]", "Q": "P[12]"},
    2: {"A": "*", "B": "A*", "P": "?", "PQ": "P?", "x": "[x]", "xy": "[!x]"},
    # a peer that writes Latin-1 (what every transport of the library decodes): the bytes 0xA0-0xFF travel raw
    3: {"A": "C\u00f4te", "B": "\u00c9tage", "AB": "C\u00f4te\u00e9", "P": "Temp\u00e9rature", "PQ": "Temp\u00e9rature\u00b0", "x": "\u00e9", "xy": "\u00e9\u00df", "z": "\u00f7", "hello": "gr\u00fc\u00df dich \u00a0"},
}


def rename_case(case):
    table = RENAMES.get(case.get("rename") or 0) if isinstance(case, dict) else None
    if not table:
        return case

    def walk(v):
        if isinstance(v, str):
            return table.get(v, v)
        if isinstance(v, list):
            return [walk(x) for x in v]
        if isinstance(v, tuple):
            return tuple(walk(x) for x in v)
        if isinstance(v, dict):
            return {k: walk(x) for k, x in v.items()}
        return v

    return walk(case)


def to_library(item):
    """Library message object as it would arrive from the wire (attribute values are strings)."""
    from indi.message import IndiMessage

    if item.get("choices") is None:
        return IndiMessage.from_string(gen.build(item["spec"]).to_string())
    return IndiMessage.from_string(gen.render_foreign(item["spec"], item["choices"]))


def to_wire(item, latin1=False) -> bytes:
    if latin1:
        return gen.render_foreign(item["spec"], item.get("choices") or [0], ascii_only=False).encode("latin1")
    if item.get("choices") is None:
        return gen.build(item["spec"]).to_string()
    return gen.render_foreign(item["spec"], item["choices"]).encode("ascii")
