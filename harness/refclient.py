"""Reference INDI client interpreter over msg_specs (harness/gen.py), written from the INDI client
rules in the statements of C15/C16, never from the library:

  def*Vector   creates the device if needed and creates or REPLACES the property
  set*Vector   same-kind property of a known device: state := msg.state, every listed element that
               exists takes the listed value; anything else is ignored
  delProperty  with a name removes that property, without a name the whole device
  others       ignored

It also derives the events an application must see (C16): DefinitionUpdate per definition, state and
value change events per definition epoch.
"""
from __future__ import annotations

import base64

from harness import gen


def norm(v):
    return gen.norm_text(v)


def blob_value(child):
    """(bytes, format) of a oneBLOB spec child; zero-length payload == no BLOB."""
    text = child.get("text")
    data = base64.b64decode(text) if text else b""
    return (data, child["attrs"].get("format") or "")


def blob_size_consistent(child):
    """True when the declared size is the length of the payload; None when the format says the payload is compressed
    (the declared size is that of the uncompressed data, so nothing can be said); False otherwise (also for a size
    that is not an integer)."""
    data, fmt = blob_value(child)
    if fmt.endswith(".z"):
        return None
    try:
        return int(child["attrs"].get("size")) == len(data)
    except (TypeError, ValueError):
        return False


class RefClient:
    def __init__(self):
        self.devices = {}  # name -> {prop name -> prop}
        self.events = []  # events of the last message
        self.ambiguous = set()  # (device, property, element) whose update in the last message may or may not be taken

    def apply(self, spec):
        """Apply one message; returns the list of expected events for it."""
        ev = []
        self.ambiguous = set()
        kind = spec["kind"]
        a = spec["attrs"]
        if kind.startswith("def") and kind.endswith("Vector"):
            k = kind[3:-6]
            dev = self.devices.setdefault(a["device"], {})
            prop = {
                "kind": k, "name": a["name"], "state": a["state"], "label": a.get("label"), "group": a.get("group"),
                "attrs": dict(a), "elements": {},
            }
            for c in spec["children"]:
                # a definition of a BLOB carries no payload
                val = None if k == "BLOB" else norm(c.get("text"))
                prop["elements"][c["attrs"]["name"]] = {"label": c["attrs"].get("label"), "value": val, "attrs": dict(c["attrs"])}
            dev[a["name"]] = prop
            # events: initial state, initial values (None -> v), then the definition itself
            ev.append(("state", a["device"], a["name"], None, None, a["state"]))
            for en, e in prop["elements"].items():
                ev.append(("value", a["device"], a["name"], en, None, e["value"]))
            ev.append(("definition", a["device"], a["name"], None, None, None))
        elif kind.startswith("set") and kind.endswith("Vector"):
            k = kind[3:-6]
            dev = self.devices.get(a["device"])
            prop = dev.get(a["name"]) if dev is not None else None
            if prop is not None and prop["kind"] == k:
                if prop["state"] != a["state"]:
                    ev.append(("state", a["device"], a["name"], None, prop["state"], a["state"]))
                    prop["state"] = a["state"]
                for c in spec["children"]:
                    e = prop["elements"].get(c["attrs"]["name"])
                    if e is None:
                        continue
                    new = blob_value(c) if k == "BLOB" else norm(c.get("text"))
                    if k == "BLOB":
                        changed = True  # BLOB identity: every payload update is a new value
                        if blob_size_consistent(c) is False:
                            # an element whose declared size contradicts its payload: a client may take what was sent or
                            # leave the element alone (it must not choke on it); both outcomes are acceptable from here on
                            e["also"] = [x for x in e.get("also", []) if x != new] + [e["value"]]
                            self.ambiguous.add((a["device"], a["name"], c["attrs"]["name"]))
                        else:
                            e["also"] = []
                    else:
                        changed = e["value"] != new
                    if changed:
                        ev.append(("value", a["device"], a["name"], c["attrs"]["name"], e["value"], new))
                    e["value"] = new
        elif kind == "delProperty":
            if a.get("name") is None:
                self.devices.pop(a["device"], None)
            else:
                dev = self.devices.get(a["device"])
                if dev is not None:
                    dev.pop(a["name"], None)
        self.events = ev
        return ev

    def resolve(self, libview):
        """Where several outcomes are acceptable (see `also`), adopt the one the client under test actually shows."""
        def nb(v):
            return None if (v is None or len(v[0]) == 0) else (v[0], v[1])

        for dn, props in self.devices.items():
            for pn, p in props.items():
                for en, e in p["elements"].items():
                    if not e.get("also"):
                        continue
                    try:
                        got = libview[dn][pn][4][en][1]
                    except (KeyError, IndexError, TypeError):
                        continue
                    if got != nb(e["value"]):
                        for alt in e["also"]:
                            if got == nb(alt):
                                e["value"] = alt
                                break
                    e["also"] = []

    def view(self):
        """Comparable view: {dev: {prop: (kind, state, label, group, {el: (label, value)})}}; devices
        without properties are dropped (a client may or may not list them)."""
        out = {}
        for dn, props in self.devices.items():
            if not props:
                continue
            out[dn] = {}
            for pn, p in props.items():
                els = {}
                for en, e in p["elements"].items():
                    v = e["value"]
                    if p["kind"] == "BLOB":
                        v = None if (v is None or len(v[0]) == 0) else (v[0], v[1])
                    els[en] = (e["label"], v)
                out[dn][pn] = (p["kind"], p["state"], p["label"], p["group"], els)
        return out


def _membership(container, name, where):
    """`name in container` must agree with what the listing says (both are public API of the mirror)."""
    from harness.core import Failure

    if hasattr(type(container), "__contains__"):
        if not (name in container):
            raise Failure("mirror:membership-disagrees-with-listing", f"{where}: {name!r} is listed but `in` says no")
        if "\x00no-such-name" in container:
            raise Failure("mirror:membership-disagrees-with-listing", f"{where}: `in` is true for a name that is not listed")
    for getter in ("get_device", "get_vector", "get_element"):
        if hasattr(container, getter):
            if getattr(container, getter)(name) is not container[name]:
                raise Failure("mirror:getter-disagrees-with-index", f"{where}: {getter}({name!r}) is not [{name!r}]")
            if getattr(container, getter)("\x00no-such-name") is not None:
                raise Failure("mirror:getter-disagrees-with-index", f"{where}: {getter} returns something for a name that is not listed")


def library_view(client):
    """The same view read from an indi.client.BaseClient through its public API."""
    out = {}
    from harness.core import Failure

    def _names(x, where):
        if not isinstance(x, (tuple, list)) and not hasattr(x, "__iter__"):
            raise Failure("mirror:listing-not-a-sequence", f"{where}: the listing is {x!r}")
        return list(x)

    for dn in _names(client.list_devices(), "client.list_devices()"):
        _membership(client, dn, "client")
        dev = client[dn]
        names = _names(dev.list_vectors(), f"{dn}.list_vectors()")
        if not names:
            continue
        out[dn] = {}
        for pn in names:
            v = dev[pn]
            kind = type(v).__name__[: -len("Vector")]
            els = {}
            _membership(dev, pn, f"{dn}")
            for en in _names(v.list_elements(), f"{dn}.{pn}.list_elements()"):
                _membership(v, en, f"{dn}.{pn}")
                e = v[en]
                val = e.value
                if kind == "BLOB":
                    if val is None or isinstance(val, str) and not val.strip():
                        val = None
                    elif hasattr(val, "binary"):
                        val = None if len(val.binary) == 0 else (val.binary, val.format or "")
                    else:
                        val = ("<not-a-blob>", repr(val)[:60])
                else:
                    val = norm(val)
                els[en] = (e.label, val)
            out[dn][pn] = (kind, v.state, v.label, v.group, els)
    return out


def client_write(client, k, submit=True):
    """The application writes to the k-th writable element the mirror currently lists (assign + submit()). Returns a
    description, or None when there is nothing to write to. Sending a request must not touch the mirror: it changes when
    the device answers."""
    from indi.device import values

    targets = []
    for dn in sorted(client.list_devices()):
        dev = client[dn]
        for pn in sorted(dev.list_vectors()):
            v = dev[pn]
            kind = type(v).__name__[: -len("Vector")]
            if kind == "Light":
                continue
            for en in sorted(v.list_elements()):
                targets.append((dn, pn, en, kind))
    if not targets:
        return None
    dn, pn, en, kind = targets[k % len(targets)]
    val = {"Text": "written", "Number": "42", "Switch": "On", "BLOB": values.BLOB(b"written", ".bin")}[kind]
    vec = client[dn][pn]
    vec[en].value = val
    if submit:
        vec.submit()
        return f"{dn}.{pn}.{en} ({kind})"
    return f"{dn}.{pn}.{en} ({kind}, edit left pending)"
