"""INDI number conventions, written from the INDI white paper / f_scansexa behaviour (not from
the library): optional sign applying to the whole magnitude, 1-3 fields separated by ':', ';'
or blanks, each later field 1/60 of the previous one."""
from __future__ import annotations

import re

_FIELD = r"(?:\d+\.?\d*|\.\d+)"
_PLAIN = re.compile(rf"^[+-]?{_FIELD}(?:[eE][+-]?\d+)?$")
_SEXA = re.compile(rf"^([+-]?)({_FIELD})[:; ]+({_FIELD})(?:[:; ]+({_FIELD}))?$")
_SEXA_FMT = re.compile(r"^%(\d*)\.(\d+)m$")
_PRINTF = re.compile(r"^%([-+ 0#]*)(\d*)(?:\.(\d+))?([df])$")


def parse(text: str) -> float:
    """Value denoted by an INDI number text. Raises ValueError if it is not one."""
    s = text.strip()
    if _PLAIN.match(s):
        return float(s)
    m = _SEXA.match(s)
    if not m:
        raise ValueError(f"not an INDI number: {text!r}")
    sign, a, b, c = m.groups()
    v = float(a) + float(b) / 60.0 + (float(c) / 3600.0 if c is not None else 0.0)
    return -v if sign == "-" else v


def is_number(text: str) -> bool:
    try:
        parse(text)
        return True
    except ValueError:
        return False


def resolution(fmt: str) -> float:
    m = _SEXA_FMT.match(fmt)
    if m:
        return {3: 1 / 60, 5: 1 / 600, 6: 1 / 3600, 8: 1 / 36000, 9: 1 / 360000}[int(m.group(2))]
    m = _PRINTF.match(fmt)
    if not m:
        raise ValueError(f"unsupported format {fmt!r}")
    flags, width, prec, conv = m.groups()
    if conv == "d":
        return 1.0
    return 10.0 ** -(int(prec) if prec is not None else 6)


def is_sexagesimal(fmt: str) -> bool:
    return bool(_SEXA_FMT.match(fmt))


def conforms(text: str, fmt: str) -> bool:
    """Is `text` written the way `fmt` renders numbers (notation, number of fields and fraction
    digits)? Rounding mode and padding are not judged here - the denoted value is, elsewhere."""
    t = text.strip()
    m = _SEXA_FMT.match(fmt)
    if m:
        frac = int(m.group(2))
        pat = {
            3: r"^-?\d+:\d{2}$",
            5: r"^-?\d+:\d{2}\.\d$",
            6: r"^-?\d+:\d{2}:\d{2}$",
            8: r"^-?\d+:\d{2}:\d{2}\.\d$",
            9: r"^-?\d+:\d{2}:\d{2}\.\d{2}$",
        }[frac]
        return bool(re.match(pat, t))
    m = _PRINTF.match(fmt)
    if not m:
        return True
    flags, width, prec, conv = m.groups()
    if conv == "d":
        return bool(re.match(r"^[+-]?\d+$", t))
    p = int(prec) if prec is not None else 6
    if p == 0:
        return bool(re.match(r"^[+-]?\d+\.?$", t))
    return bool(re.match(rf"^[+-]?\d+\.\d{{{p}}}$", t))
