"""In-process network with harness-owned clock and I/O schedule.

VirtualLoop   asyncio loop whose time() is a virtual clock and whose selector never blocks
FakeReader / FakeWriter   duck-typed StreamReader / StreamWriter (read(n), write, drain, close)
Link          one TCP-like connection: two directions, bytes moved by the harness in fragments
FakeTTY       stdin.readline / stdout.write / stdout.flush coroutines
Net           a Router plus any number of server-side handlers and client-side connections
Explorer      stateless DFS over scheduler choice points (re-executes the scenario per prefix)
"""
from __future__ import annotations

import asyncio
import selectors


class Deadlock(Exception):
    pass


class _PollSelector(selectors.DefaultSelector):
    loop = None

    def select(self, timeout=None):
        # never block: the harness advances the virtual clock itself
        return super().select(0)


class VirtualLoop(asyncio.SelectorEventLoop):
    def __init__(self):
        sel = _PollSelector()
        super().__init__(selector=sel)
        sel.loop = self
        self._vtime = 0.0

    def time(self):
        return self._vtime

    # -- stepping ------------------------------------------------------------------------
    def drain(self, max_iter=200000):
        """Run every ready callback (and those they schedule) without advancing the clock."""
        from harness.core import check_deadline

        n = 0
        while True:
            check_deadline()
            self.call_soon(self.stop)
            self.run_forever()
            n += 1
            if not self._ready:
                # due timers are moved to _ready by _run_once only when time has reached them
                if not any((not h.cancelled()) and h.when() <= self._vtime for h in self._scheduled):
                    return
            if n > max_iter:
                raise Deadlock("event loop did not become idle (livelock)")

    def step(self):
        """Exactly one iteration of the loop: the handles that are ready now run, nothing else."""
        from harness.core import check_deadline

        check_deadline()
        self.call_soon(self.stop)
        self.run_forever()

    @property
    def busy(self):
        return bool(self._ready)

    def next_timer(self):
        whens = [h.when() for h in self._scheduled if not h.cancelled()]
        return min(whens) if whens else None

    def advance_to(self, t):
        """Advance the virtual clock to t, firing timers in order (each at its own instant)."""
        self.drain()
        while True:
            nxt = self.next_timer()
            if nxt is None or nxt > t:
                break
            self._vtime = max(self._vtime, nxt)
            self.drain()
        self._vtime = max(self._vtime, t)
        self.drain()

    def shutdown(self):
        """Cancel everything that is left and close (no task or handle outlives a case)."""
        try:
            for _ in range(5):
                tasks = [t for t in asyncio.all_tasks(self) if not t.done()]
                if not tasks:
                    break
                for t in tasks:
                    t.cancel()
                self.drain()
            for t in asyncio.all_tasks(self):
                if t.done() and not t.cancelled():
                    t.exception()  # mark retrieved
        finally:
            self.close()


def new_loop():
    loop = VirtualLoop()
    loop.set_exception_handler(lambda l, ctx: l._unhandled.append(ctx))
    loop._unhandled = []
    asyncio.set_event_loop(loop)
    return loop


# --------------------------------------------------------------------------------------------


class FakeReader:
    def __init__(self, loop):
        self.loop = loop
        self.buf = bytearray()
        self.eof = False
        self.exc = None
        self.waiter = None
        self.reads = 0

    def _wake(self):
        if self.waiter is not None and not self.waiter.done():
            self.waiter.set_result(None)
        self.waiter = None

    def feed(self, data: bytes):
        self.buf += data
        self._wake()

    def feed_eof(self):
        self.eof = True
        self._wake()

    def set_exception(self, exc):
        self.exc = exc
        self._wake()

    @property
    def parked(self):
        return self.waiter is not None and not self.waiter.done()

    async def read(self, n=-1):
        self.reads += 1
        while True:
            if self.exc is not None:
                raise self.exc
            if self.buf:
                k = len(self.buf) if n is None or n < 0 else n
                chunk = bytes(self.buf[:k])
                del self.buf[:k]
                return chunk
            if self.eof:
                return b""
            self.waiter = self.loop.create_future()
            await self.waiter


class FakeWriter:
    """write() appends to `out` (and `writes`); drain() completes at once, or - in held mode -
    returns a future the explorer releases."""

    def __init__(self, loop):
        self.loop = loop
        self.out = bytearray()  # not yet moved to the peer
        self.all = bytearray()  # everything ever written
        self.writes = []
        self.closed = False
        self.write_exc = None
        self.drain_exc = None
        self.held = False
        self.yielding = False  # drain() suspends for one loop iteration (a transport above its high-water mark)
        self.pending = []  # futures of held drains

    def write(self, data):
        if self.write_exc is not None:
            raise self.write_exc
        self.out += data
        self.all += data
        self.writes.append(bytes(data))

    async def drain(self):
        if self.drain_exc is not None:
            raise self.drain_exc
        if self.held:
            fut = self.loop.create_future()
            self.pending.append(fut)
            await fut
        elif self.yielding:
            await asyncio.sleep(0)

    def close(self):
        self.closed = True

    def is_closing(self):
        return self.closed

    async def wait_closed(self):
        return None


class Link:
    """A connection: a = client side, b = server side."""

    def __init__(self, loop, frag_c2s=None, frag_s2c=None):
        self.loop = loop
        self.a_reader, self.a_writer = FakeReader(loop), FakeWriter(loop)
        self.b_reader, self.b_writer = FakeReader(loop), FakeWriter(loop)
        self.frag = {"c2s": list(frag_c2s or [1024]), "s2c": list(frag_s2c or [1024])}
        self.fi = {"c2s": 0, "s2c": 0}
        self.moved = {"c2s": bytearray(), "s2c": bytearray()}
        self.server_task = None
        self.handler = None  # server-side ConnectionHandler, when known

    def _next(self, d):
        f = self.frag[d]
        v = f[self.fi[d] % len(f)]
        self.fi[d] += 1
        return max(1, int(v))

    def pump_one(self, d):
        """Move one fragment in direction d ('c2s' | 's2c'). Returns True if bytes moved."""
        w, r = (self.a_writer, self.b_reader) if d == "c2s" else (self.b_writer, self.a_reader)
        if not w.out:
            return False
        k = self._next(d)
        chunk = bytes(w.out[:k])
        del w.out[:k]
        self.moved[d] += chunk
        r.feed(chunk)
        return True


class FakeStdin:
    def __init__(self, loop):
        self.loop = loop
        self.lines = []
        self.eof = False
        self.exc = None
        self.waiter = None

    def _wake(self):
        if self.waiter is not None and not self.waiter.done():
            self.waiter.set_result(None)
        self.waiter = None

    def feed(self, text: str):
        # readline semantics: split after every newline
        for line in text.splitlines(keepends=True):
            self.lines.append(line)
        self._wake()

    def feed_eof(self):
        self.eof = True
        self._wake()

    def set_exception(self, exc):
        self.exc = exc
        self._wake()

    async def readline(self):
        while True:
            if self.exc is not None:
                raise self.exc
            if self.lines:
                return self.lines.pop(0)
            if self.eof:
                return ""
            self.waiter = self.loop.create_future()
            await self.waiter


class FakeStdout:
    """A buffered text stream: what is written becomes visible to the peer (`out`) only when it is flushed.
    In held mode the *effect* of write / flush happens when the explorer releases it - a thread pool may run
    queued jobs in any order."""

    def __init__(self, loop):
        self.loop = loop
        self.out = ""
        self.unflushed = ""
        self.held = False
        self.pending = []  # (kind, payload, future)
        self.write_exc = None
        self.fail_writes = {}  # index of the write call -> exception raised instead of writing (once)
        self.n_writes = 0

    async def write(self, data):
        if self.write_exc is not None:
            raise self.write_exc
        self.n_writes += 1
        exc = self.fail_writes.pop(self.n_writes - 1, None)
        if exc is not None:
            raise exc
        if self.held:
            fut = self.loop.create_future()
            self.pending.append(("write", data, fut))
            await fut
        else:
            self.unflushed += data

    async def flush(self):
        if self.held:
            fut = self.loop.create_future()
            self.pending.append(("flush", None, fut))
            await fut
        else:
            self.out += self.unflushed
            self.unflushed = ""

    def release(self, i):
        kind, data, fut = self.pending.pop(i)
        if kind == "write":
            self.unflushed += data
        else:
            self.out += self.unflushed
            self.unflushed = ""
        if not fut.done():
            fut.set_result(None)


# --------------------------------------------------------------------------------------------


class FakeTCP:
    """Duck-typed replacement of indi.transport.client.tcp.TCP: connect() builds a Link whose server side
    is served by the real server ConnectionHandler.handler(router)."""

    def __init__(self, net, frag_c2s=None, frag_s2c=None):
        self.net = net
        self.frag_c2s, self.frag_s2c = frag_c2s, frag_s2c
        self.link = None
        self.handler = None

    async def connect(self, callback, for_blobs=False):
        from indi.transport.client.tcp import ConnectionHandler

        self.link = self.net.open_server_link(self.frag_c2s, self.frag_s2c, drain=False)
        await asyncio.sleep(0)  # let the server handler start and register itself
        self.handler = ConnectionHandler(self.link.a_reader, self.link.a_writer, callback, for_blobs=for_blobs)
        return self.handler


class Net:
    def __init__(self, loop=None, yield_drains=False):
        self.yield_drains = yield_drains
        from indi.routing import Router
        from indi.transport.server import tcp as server_tcp

        self.loop = loop or new_loop()
        self.router = Router()
        self.links = []
        self.server_tcp = server_tcp
        server_tcp.ConnectionHandler.connections.clear()

    def open_server_link(self, frag_c2s=None, frag_s2c=None, drain=True):
        link = Link(self.loop, frag_c2s, frag_s2c)
        link.a_writer.yielding = link.b_writer.yielding = self.yield_drains
        # the callback asyncio.start_server is given by the public TCP server class
        if getattr(self, "tcp_server", None) is None:
            self.tcp_server = self.server_tcp.TCP(self.router)
        link.server_task = self.loop.create_task(self.tcp_server.client_connected(link.b_reader, link.b_writer))
        link.net = self
        self.links.append(link)
        if drain:
            self.loop.drain()
        return link

    def server_handler(self, link):
        """The server-side ConnectionHandler object serving `link` (None before its task started)."""
        if link.handler is None:
            for c in list(self.router.clients) + list(self.server_tcp.ConnectionHandler.connections):
                if getattr(c, "reader", None) is link.b_reader:
                    link.handler = c
        return link.handler

    def settle(self, max_rounds=100000):
        """Run until nothing is ready, every outbox is empty and every reader is parked."""
        self.loop.drain()
        rounds = 0
        while True:
            moved = False
            for link in list(self.links):
                for d in ("c2s", "s2c"):
                    if link.pump_one(d):
                        moved = True
                        self.loop.drain()
            if not moved:
                break
            rounds += 1
            if rounds > max_rounds:
                raise Deadlock("traffic does not quiesce")
        self.loop.drain()

    def close(self):
        self.server_tcp.ConnectionHandler.connections.clear()
        self.loop.shutdown()


# --------------------------------------------------------------------------------------------


class Explorer:
    """Stateless DFS over choice points. scenario(choose) is re-executed from scratch for every
    choice prefix; choose(n) returns an index < n."""

    def __init__(self, scenario, max_runs=200000):
        self.scenario = scenario
        self.max_runs = max_runs
        self.runs = 0
        self.truncated = False

    def explore(self):
        prefix = []
        while True:
            trace = []  # (choice, n_options)

            def choose(n, _trace=trace, _prefix=prefix):
                i = len(_trace)
                c = _prefix[i] if i < len(_prefix) else 0
                _trace.append((c, n))
                return c

            self.scenario(choose, trace)
            self.runs += 1
            if self.runs >= self.max_runs:
                self.truncated = True
                return
            # backtrack
            k = len(trace) - 1
            while k >= 0 and trace[k][0] + 1 >= trace[k][1]:
                k -= 1
            if k < 0:
                return
            prefix = [c for c, _ in trace[:k]] + [trace[k][0] + 1]
