"""Shared driver for the receive-buffer properties (C02, C11): renders item lists to a character
stream, feeds it to indi.transport.Buffer in pieces and records what is delivered when."""
from __future__ import annotations

from hypothesis import strategies as st

from harness import gen
from harness.core import Failure

KNOWN_TAGS = sorted(gen.MESSAGES)


def render_item(item):
    """-> (text, end_offset_of_element_within_text | None, expected_view | None)"""
    kind = item.get("t", "msg")
    if kind == "msg":
        spec = item["spec"]
        if item.get("choices") is None:
            text = gen.build(spec).to_string().decode("latin1")
        else:
            # latin1: characters U+0080..U+00FF travel raw (the transports decode bytes as Latin-1), others as references
            text = gen.render_foreign(spec, item["choices"], ascii_only=not item.get("latin1"))
        text = item.get("gap", "") + text
        end = text.rindex(">") + 1
        return text, end, gen.expected_view(spec)
    if kind == "junk":
        return item["text"], None, None
    if kind == "trunc":  # valid message truncated at a position (modulo its length)
        full = gen.render_foreign(item["spec"], item.get("choices") or [0])
        n = 1 + item["at"] % (len(full) - 1)
        return full[:n], None, None
    raise AssertionError(kind)


def render_stream(items):
    text = ""
    ends, views = [], []
    for it in items:
        t, end, v = render_item(it)
        if end is not None:
            ends.append(len(text) + end)
            views.append(v)
        text += t
    return text, ends, views


def element_lengths(items):
    out = []
    for it in items:
        if it.get("t", "msg") == "msg":
            t, end, _ = render_item(it)
            body = t[len(it.get("gap", "")):end]
            # the XML declaration is not part of the element
            start = body.index("<" + it["spec"]["kind"])
            out.append(end - len(it.get("gap", "")) - start)
    return out


def pieces_from_cuts(text, cuts):
    cuts = sorted({c for c in cuts if 0 < c < len(text)})
    prev = 0
    out = []
    for c in cuts:
        out.append(text[prev:c])
        prev = c
    out.append(text[prev:])
    return [p for p in out if p]


class Feed:
    """One Buffer fed piece by piece; after every process() call `check` is invoked."""

    def __init__(self, threshold):
        from indi.message import IndiMessage
        from indi.transport import Buffer

        self.IndiMessage = IndiMessage
        self.buf = Buffer()
        self.buf.max_buffer_size_before_frontal_cleanup = threshold
        self.threshold = threshold
        self.delivered = []  # views
        self.fed = ""
        self.calls = 0
        self.max_deliveries = None

    def _cb(self, m):
        if not isinstance(m, self.IndiMessage):
            raise Failure("callback-non-message", f"consumer called with {m!r} after {len(self.fed)} chars (buffer {self.buf.data[:80]!r})")
        self.delivered.append(gen.view(m))
        limit = self.fed.count("<")
        if len(self.delivered) > limit:
            raise Failure("more-deliveries-than-elements", f"{len(self.delivered)} deliveries after {limit} '<' characters")

    def feed(self, piece):
        self.buf.append(piece)
        self.fed += piece
        self.calls += 1
        try:
            self.buf.process(self._cb)
        except Failure:
            raise
        except Exception as e:  # noqa
            import traceback

            tb = traceback.extract_tb(e.__traceback__)
            where = f"{tb[-1].name}" if tb else "?"
            raise Failure(f"process-raises:{type(e).__name__}@{where}", f"{type(e).__name__}: {e} while processing after {len(self.fed)} chars; piece={piece[:80]!r}")


# --------------------------------------------------------------------------------------------
# strategies

gaps = st.sampled_from(["", "", "\n", " ", "\n\n  ", "\t"])


def msg_item(max_children=3, kinds=None):
    plain = st.fixed_dictionaries(
        {
            "t": st.just("msg"),
            "spec": gen.msg_spec(kinds=kinds, max_children=max_children, max_cp=0x2FFF),
            "choices": st.none() | gen.choices,
            "gap": gaps,
        }
    )
    latin1 = st.fixed_dictionaries(
        {
            "t": st.just("msg"),
            "spec": gen.msg_spec(kinds=kinds, max_children=max_children, max_cp=0xFF),
            "choices": gen.choices,
            "gap": gaps,
            "latin1": st.just(True),
        }
    )
    return st.one_of(plain, plain, plain, latin1)
