"""Common machinery: context, failure classification, known findings, evidence, replay files.

Every property module (harness/props/cXX.py) exposes

    ID = "Cxx"; LEVEL = "exploration" | "fault_enumeration"
    RULE = "<how cases are generated and what makes one non-trivial>"
    SUBCHECKS = {name: fn}      # fn(case) -> Info | None ; raises Failure on a violation
    def run(ctx): ...           # drives the generators for ctx.tier / ctx.shard

and uses only the helpers of this module to execute cases, so that Hypothesis runs, exhaustive
sweeps, atheris targets and --replay all go through `Ctx.execute`.
"""
from __future__ import annotations

import hashlib
import json
import os
import signal
import sys
import time
import traceback
from collections import Counter
from contextlib import contextmanager

VERIF = os.path.dirname(os.path.dirname(os.path.abspath(__file__)))
REPO = os.path.abspath(os.environ.get("VERIF_REPO", "/repo"))


# --------------------------------------------------------------------------------------------
# exceptions


class Failure(Exception):
    """A property violation observed on one case.

    `sig` is the specific signature used to match known findings (call site / input class /
    history shape); `msg` is for humans.
    """

    def __init__(self, sig: str, msg: str = "", detail=None, min_case=None):
        super().__init__(f"{sig}: {msg}")
        self.sig = sig
        self.msg = msg
        self.detail = detail
        self.min_case = min_case  # for block cases: the single failing point, in the same case format


class HarnessError(Exception):
    """Something is wrong with the harness itself (never reported as a violation)."""


class Hang(BaseException):
    """Raised by the SIGALRM backstop / step bounds inside library code."""


class _AbortShrink(BaseException):
    """Raised inside a Hypothesis test once the shrink budget is spent (not caught by Hypothesis)."""


class Info:
    """What one executed case was. For block cases (a slice of an exhaustive enumeration run in one
    call) n_eval / n_nontrivial count the points inside the block; points of different blocks
    are distinct by construction, so they are summed rather than hashed."""

    __slots__ = ("nontrivial", "labels", "key", "n_eval", "n_nontrivial", "label_counts")

    def __init__(self, nontrivial=False, labels=(), key=None, n_eval=1, n_nontrivial=None, label_counts=None):
        self.nontrivial = nontrivial
        self.labels = labels
        self.key = key
        self.n_eval = n_eval
        self.n_nontrivial = n_nontrivial
        self.label_counts = label_counts


# --------------------------------------------------------------------------------------------
# helpers


def canon(case) -> str:
    return json.dumps(case, sort_keys=True, ensure_ascii=True, separators=(",", ":"), default=_default)


def _default(o):
    if isinstance(o, (bytes, bytearray)):
        return {"__hex__": bytes(o).hex()}
    if isinstance(o, (set, frozenset)):
        return sorted(o)
    if isinstance(o, tuple):
        return list(o)
    raise TypeError(f"not JSON-able: {type(o)}")


def case_hash(case) -> int:
    return int.from_bytes(hashlib.blake2b(canon(case).encode(), digest_size=8).digest(), "big")


@contextmanager
def library_logging(level=None):
    """Run the library with its loggers enabled at `level` (default DEBUG, records discarded by a NullHandler): the harness
    normally disables logging altogether, so the code on the library's logging paths would never execute."""
    import logging

    lg = logging.getLogger("indi")
    saved = (lg.level, lg.propagate, logging.root.manager.disable)
    h = logging.NullHandler()
    lg.addHandler(h)
    lg.setLevel(logging.DEBUG if level is None else level)
    lg.propagate = False
    logging.disable(logging.NOTSET)
    try:
        yield
    finally:
        lg.removeHandler(h)
        lg.setLevel(saved[0])
        lg.propagate = saved[1]
        logging.disable(saved[2])


_DEADLINE = {"fired": False}


def check_deadline():
    """Called by harness code that steps the library: once the deadline of the running case has passed (and the
    interruption was swallowed by a bare `except:` in the library), stop driving it."""
    if _DEADLINE["fired"]:
        raise Hang("deadline of the running case has passed")


@contextmanager
def deadline(seconds: int = 20):
    """SIGALRM backstop around library calls that must terminate (3-4 orders of slack)."""

    fired = []
    _DEADLINE["fired"] = False

    def _raise(signum, frame):
        fired.append(True)
        _DEADLINE["fired"] = True  # harness code that drives the library (event-loop stepping) checks this and gives up
        # re-arm: library code with a bare `except:` may swallow the exception and carry on looping
        signal.alarm(1)
        raise Hang(f"did not terminate within {seconds}s")

    old = signal.signal(signal.SIGALRM, _raise)
    signal.alarm(seconds)
    try:
        yield
    finally:
        signal.alarm(0)
        signal.signal(signal.SIGALRM, old)
        _DEADLINE["fired"] = False
    if fired:
        # the deadline passed but the exception was swallowed on the way (bare except in library code)
        raise Hang(f"did not terminate within {seconds}s (the interruption was swallowed by the code under test)")


def indi_frame(tb) -> str | None:
    """Innermost traceback frame that lies in the library under test, as 'file:function'."""
    found = None
    root = os.path.join(REPO, "indi") + os.sep
    for fs in traceback.extract_tb(tb):
        fn = os.path.abspath(fs.filename)
        if fn.startswith(root):
            found = f"{fn[len(root):]}:{fs.name}"
    return found


def innermost_is_library(tb) -> bool:
    """True if the exception was raised from library code or from the stdlib called by it (and
    not from harness code called back by the library)."""
    root = os.path.join(REPO, "indi") + os.sep
    frames = traceback.extract_tb(tb)
    last_lib = max((i for i, f in enumerate(frames) if os.path.abspath(f.filename).startswith(root)), default=-1)
    if last_lib < 0:
        return False
    harness_root = VERIF + os.sep
    for f in frames[last_lib + 1:]:
        if os.path.abspath(f.filename).startswith(harness_root):
            return False
    return True


def lib_exception_failure(exc: BaseException, where: str = "") -> Failure:
    """Bucket an exception escaping from library code: (type, innermost library frame)."""
    frame = indi_frame(exc.__traceback__) or "?"
    sig = f"exc:{type(exc).__name__}@{frame}"
    if where:
        sig = f"{where}:{sig}"
    return Failure(sig, f"{type(exc).__name__}: {exc}")


# --------------------------------------------------------------------------------------------
# known findings


def finding_matches(entry, sig: str) -> bool:
    """A listed finding matches a failure signature exactly ('sig') or by 'sig_re' (full match)."""
    import re

    if entry.get("sig") == sig:
        return True
    pat = entry.get("sig_re")
    return bool(pat and re.fullmatch(pat, sig))


def load_known(pid: str):
    path = os.path.join(VERIF, "known_findings.json")
    if not os.path.exists(path):
        return []
    with open(path) as f:
        data = json.load(f)
    return [e for e in data.get("findings", []) if e.get("property") == pid]


# --------------------------------------------------------------------------------------------
# context


class Ctx:
    MAX_SAMPLES = 6
    SHRINK_CALL_LIMIT = 400
    SHRINK_SECONDS = 20

    def __init__(self, pid: str, tier: str, seed: int, shard: int = 0, nshards: int = 1, subchecks=None):
        self.pid = pid
        self.tier = tier
        self.seed = seed
        self.shard = shard
        self.nshards = nshards
        self.subchecks = subchecks or {}
        known = load_known(pid)
        self.open_findings = [e for e in known if e.get("status") == "open"]
        self.evaluations = 0
        self.sub_evals = Counter()
        self.sub_nontrivial = Counter()
        self.nontrivial = set()
        self.block_nontrivial = 0
        self.classes = Counter()
        self.known_hits = Counter()  # finding id -> hits
        self.known_sigs = Counter()  # failure signature -> hits
        self.samples = []
        self.sub_sampled = Counter()
        self.violations = []  # dicts {sub, sig, msg, replay}
        self.exhaustive = {}
        self.notes = {}
        self.t0 = time.time()
        # shrink limiting
        self._failing = None
        self._fail_calls = 0

    # -- seeds ---------------------------------------------------------------------------
    def seed_for(self, sub: str) -> int:
        h = int.from_bytes(hashlib.blake2b(sub.encode(), digest_size=4).digest(), "big")
        return (self.seed * 1_000_003 + self.shard * 7919 + h) % (2**63)

    def scale(self, quick: int, thorough: int) -> int:
        return quick if self.tier == "quick" else thorough

    # -- executing one case --------------------------------------------------------------
    def execute(self, sub: str, fn, case, *, timeout: int = 30, count: bool = True):
        """Run fn(case); record statistics; classify failures.

        Returns normally if the property held or a *listed* finding was hit; raises Failure for
        an unlisted violation; raises HarnessError for exceptions that come from the harness.
        """
        if count:
            self.evaluations += 1
            self.sub_evals[sub] += 1
        try:
            with deadline(timeout):
                info = fn(case)
        except Failure as f:
            return self._failed(sub, case, f)
        except Hang as h:
            return self._failed(sub, case, Failure("hang", str(h)))
        except RecursionError as e:
            return self._failed(sub, case, lib_exception_failure(e))
        except (KeyboardInterrupt, SystemExit, GeneratorExit):
            raise
        except BaseException as e:  # noqa
            if e.__class__.__module__.startswith("hypothesis"):
                raise
            if innermost_is_library(e.__traceback__):
                return self._failed(sub, case, lib_exception_failure(e))
            raise HarnessError(f"{sub}: {type(e).__name__}: {e}\n{traceback.format_exc()}") from e
        if count and info is not None:
            self.record(sub, case, info)
        return info

    def record(self, sub, case, info: Info):
        for lab in info.labels:
            self.classes[f"{sub}:{lab}"] += 1
        if info.label_counts:
            for lab, c in info.label_counts.items():
                self.classes[f"{sub}:{lab}"] += c
        if info.n_eval != 1:
            self.evaluations += info.n_eval - 1
            self.sub_evals[sub] += info.n_eval - 1
        if info.n_nontrivial is not None:
            # block of an exhaustive enumeration: points are distinct by construction
            self.block_nontrivial += info.n_nontrivial
            self.sub_nontrivial[sub] += info.n_nontrivial
            if info.n_nontrivial and self.sub_sampled[sub] < 2:
                self.sub_sampled[sub] += 1
                self.samples.append({"subcheck": sub, "case": _shorten(case)})
            return
        if info.nontrivial:
            h = case_hash(info.key if info.key is not None else [sub, case])
            if h not in self.nontrivial:
                self.nontrivial.add(h)
                self.sub_nontrivial[sub] += 1
                if self.sub_sampled[sub] < 2 and len(self.samples) < 40:
                    self.sub_sampled[sub] += 1
                    self.samples.append({"subcheck": sub, "case": _shorten(case)})

    def _failed(self, sub, case, f: Failure):
        sig = f"{sub}:{f.sig}"
        for e in self.open_findings:
            if finding_matches(e, sig):
                self.known_hits[e["id"]] += 1
                self.known_sigs[sig] += 1
                return None
        f.sub = sub
        f.case = case
        f.full_sig = sig
        self._failing = (sub, case, f)
        raise f

    # -- drivers -------------------------------------------------------------------------
    def each(self, sub: str, cases, fn, *, stop_after: int = 1, timeout: int = 30):
        """Exhaustive / enumerated driver. `cases` yields JSON-able cases; this shard handles
        every nshards-th of them. Stops after `stop_after` distinct violations."""
        n = 0
        for i, case in enumerate(cases):
            if getattr(self, "hung", False):
                break  # a non-terminating case was found: every further case may cost a full timeout, the verdict is in
            if i % self.nshards != self.shard:
                continue
            n += 1
            try:
                self.execute(sub, fn, case, timeout=timeout)
            except Failure as f:
                if self.add_violation(sub, case, f) >= stop_after:
                    break
        return n

    def hyp(self, sub: str, strategy, fn, n: int, *, timeout: int = 30, stateful_steps=None):
        """Hypothesis driver: n examples from `strategy`, seeded from VERIF_SEED/shard/sub."""
        import hypothesis
        from hypothesis import HealthCheck, Phase, given, settings

        if n <= 0 or getattr(self, "hung", False):
            return
        ctx = self
        limit = self.SHRINK_CALL_LIMIT
        state = {"best": None, "calls_after_fail": 0, "t_fail": None}

        @hypothesis.seed(self.seed_for(sub))
        @settings(
            max_examples=n,
            database=None,
            deadline=None,
            derandomize=False,
            report_multiple_bugs=False,
            print_blob=False,
            suppress_health_check=[HealthCheck.too_slow, HealthCheck.data_too_large, HealthCheck.large_base_example],
            phases=[Phase.generate, Phase.shrink],
        )
        @given(strategy)
        def test(case):
            if state["best"] is not None:
                state["calls_after_fail"] += 1
                # shrink budget (calls or wall clock; the clock only limits how far a failure is minimised,
                # never the verdict): stop Hypothesis altogether and report the best failing case so far
                if state["calls_after_fail"] > limit or time.time() - state["t_fail"] > self.SHRINK_SECONDS:
                    raise _AbortShrink()
            try:
                ctx.execute(sub, fn, case, timeout=timeout, count=state["best"] is None)
            except Failure as f:
                if state["t_fail"] is None:
                    state["t_fail"] = time.time()
                state["best"] = (case, f)
                if f.sig == "hang":
                    # never try to minimise a non-terminating case: every attempt costs a full timeout
                    state["t_fail"] = -1e18
                raise

        try:
            test()
        except (Failure, _AbortShrink):
            case, f2 = state["best"]
            self.add_violation(sub, case, f2)
        except hypothesis.errors.FailedHealthCheck as e:
            raise HarnessError(f"{sub}: generator health check failed: {e}") from e
        except hypothesis.errors.Flaky as e:
            # The harness keeps no state between cases, so an outcome that changes on re-execution means the library
            # carried state from one case into another. A genuine Failure was observed on a concrete case: report that.
            if state["best"] is None:
                raise HarnessError(f"{sub}: flaky without a recorded failure: {e}") from e
            case, f2 = state["best"]
            f2.msg = f2.msg + "  [not reproducible on immediate re-execution: state leaks between cases inside the library]"
            self.add_violation(sub, case, f2)

    def add_violation(self, sub, case, f: Failure) -> int:
        sig = getattr(f, "full_sig", f"{sub}:{f.sig}")
        if f.sig == "hang" or f.sig.startswith("hang:"):
            self.hung = True
        for v in self.violations:
            if v["sig"] == sig:
                return len(self.violations)
        path = write_replay(self.pid, getattr(f, "min_sub", None) or sub, getattr(f, "min_case", None) or case, sig, f.msg)
        self.violations.append({"sub": sub, "sig": sig, "msg": f.msg[:2000], "replay": path})
        return len(self.violations)

    # -- results -------------------------------------------------------------------------
    def result(self) -> dict:
        return {
            "evaluations": self.evaluations,
            "sub_evals": dict(self.sub_evals),
            "sub_nontrivial": dict(self.sub_nontrivial),
            "nontrivial": sorted(self.nontrivial),
            "block_nontrivial": self.block_nontrivial,
            "classes": dict(self.classes),
            "known_hits": dict(self.known_hits),
            "known_sigs": dict(self.known_sigs),
            "samples": self.samples,
            "violations": self.violations,
            "exhaustive": self.exhaustive,
            "notes": self.notes,
        }


def _shorten(case, limit=1500):
    s = canon(case)
    if len(s) <= limit:
        return json.loads(s)
    return {"truncated_json": s[:limit] + "...", "length": len(s)}


def write_replay(pid, sub, case, sig, msg) -> str:
    d = os.path.join(VERIF, "replays")
    os.makedirs(d, exist_ok=True)
    h = hashlib.blake2b(canon([sub, case]).encode(), digest_size=6).hexdigest()
    path = os.path.join(d, f"{pid}-{sub}-{h}.json")
    with open(path, "w") as f:
        json.dump({"property": pid, "subcheck": sub, "sig": sig, "message": msg[:4000], "case": json.loads(canon(case))}, f, indent=1)
    return path
