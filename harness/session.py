"""Server-side sessions for C12 / C18: a Router with real drivers and raw peers talking to the real
TCP and TTY connection handlers over fake streams."""
from __future__ import annotations

from harness import drivers, gen, net

SIMPLE_SPEC = {
    "name": "DEV",
    "chain": [
        {
            "groups": [
                {
                    "attr": "g", "name": "MAIN", "enabled": True,
                    "vectors": [
                        {"attr": "t", "kind": "Text", "name": "TXT", "label": None, "state": "Ok", "perm": "rw", "timeout": 0, "enabled": True,
                         "elements": [{"attr": "a", "name": "A", "label": None, "default": "a0", "enabled": True}, {"attr": "b", "name": "B", "label": None, "default": "b0", "enabled": True}]},
                        {"attr": "n", "kind": "Number", "name": "NUM", "label": None, "state": "Ok", "perm": "rw", "timeout": 0, "enabled": True,
                         "elements": [{"attr": "a", "name": "A", "label": None, "default": 1.5, "enabled": True, "format": "%.2f", "min": 0, "max": 0, "step": 0},
                                      {"attr": "s", "name": "S", "label": None, "default": 10.5, "enabled": True, "format": "%8.5m", "min": 0, "max": 0, "step": 0}]},
                        {"attr": "s", "kind": "Switch", "name": "SW", "label": None, "state": "Ok", "perm": "rw", "timeout": 0, "enabled": True, "rule": "OneOfMany", "default_on": ["A"],
                         "elements": [{"attr": "a", "name": "A", "label": None, "default": None, "enabled": True}, {"attr": "b", "name": "B", "label": None, "default": None, "enabled": True}]},
                        {"attr": "l", "kind": "Light", "name": "LGT", "label": None, "state": "Ok", "enabled": True,
                         "elements": [{"attr": "a", "name": "A", "label": None, "default": "Idle", "enabled": True}]},
                        {"attr": "bl", "kind": "BLOB", "name": "BLB", "label": None, "state": "Ok", "perm": "rw", "timeout": 0, "enabled": True,
                         "elements": [{"attr": "a", "name": "A", "label": None, "default": None, "enabled": True},
                                      {"attr": "b", "name": "B", "label": None, "default": None, "enabled": True}]},
                    ],
                }
            ]
        }
    ],
}


import copy

SECOND_SPEC = copy.deepcopy(SIMPLE_SPEC)
SECOND_SPEC["name"] = "DEV2"


# a driver with one read-only property; sessions use it as "another driver of the same server that snoops on DEV"
SNOOPER_SPEC = {
    "name": "SNOOPER",
    "chain": [{"groups": [{"attr": "g", "name": "SNOOP", "enabled": True, "vectors": [
        {"attr": "t", "kind": "Text", "name": "INFO", "label": None, "state": "Idle", "perm": "ro", "timeout": 0, "enabled": True,
         "elements": [{"attr": "a", "name": "WHO", "label": None, "default": "snooper", "enabled": True}]}]}]}],
}


class Peer:
    """A raw peer of one server connection (TCP or TTY)."""

    def __init__(self, session, kind):
        self.session = session
        self.kind = kind
        loop = session.loop
        if kind == "tcp":
            self.link = session.net.open_server_link()
            self.handler = session.net.server_handler(self.link)
            self.task = self.link.server_task
        else:
            from indi.transport.server import tty

            self.stdin, self.stdout = net.FakeStdin(loop), net.FakeStdout(loop)
            # through the public entry point (TTY(router, stdin, stdout).start()), which builds the connection handler
            router = session.net.router
            before = list(router.clients)
            self.server = tty.TTY(router, self.stdin, self.stdout)
            self.task = loop.create_task(self.server.start())
            loop.drain()
            new = [c for c in router.clients if c not in before]
            self.handler = new[0] if new else None
        self.mark = 0

    # -- peer -> server --------------------------------------------------------------------
    def send(self, text: str, settle=True):
        if self.kind == "tcp":
            self.link.b_reader.feed(text.encode("latin1"))
        else:
            self.stdin.feed(text if text.endswith("\n") else text + "\n")
        if settle:
            self.session.settle()

    def send_raw(self, text: str):
        """No newline added on the TTY (used for 'EOF inside a message')."""
        if self.kind == "tcp":
            self.link.b_reader.feed(text.encode("latin1"))
        else:
            self.stdin.feed(text)

    def eof(self):
        (self.link.b_reader if self.kind == "tcp" else self.stdin).feed_eof()

    def read_error(self, exc=None):
        exc = exc or ConnectionResetError("reset by peer (injected)")
        (self.link.b_reader if self.kind == "tcp" else self.stdin).set_exception(exc)
        if self.kind == "tcp":
            # asyncio: once the transport reported connection_lost(exc), StreamWriter.drain() raises as well
            self.link.b_writer.drain_exc = ConnectionResetError("Connection lost (injected)")

    def write_error(self, exc=None):
        exc = exc or BrokenPipeError("broken pipe (injected)")
        if self.kind == "tcp":
            self.link.b_writer.write_exc = exc
            self.link.b_writer.drain_exc = exc
        else:
            self.stdout.write_exc = exc

    # -- server -> peer --------------------------------------------------------------------
    def output(self) -> str:
        if self.kind == "tcp":
            return bytes(self.link.b_writer.all).decode("latin1")
        return self.stdout.out

    def new_output(self) -> str:
        out = self.output()
        new = out[self.mark:]
        self.mark = len(out)
        return new

    def elements(self, text=None):
        return gen.split_elements(self.output() if text is None else text)

    # -- state ------------------------------------------------------------------------------
    @property
    def registered(self):
        return self.handler in self.session.net.router.clients

    @property
    def writer_closed(self):
        return self.link.b_writer.closed if self.kind == "tcp" else None


class Session:
    def __init__(self, specs=None, extra_devices=()):
        self.net = net.Net()
        self.loop = self.net.loop
        self.specs = specs or [SIMPLE_SPEC]
        self.dep = drivers.Deployment(self.specs, self.net.router)
        for d in extra_devices:
            self.net.router.register_device(d)
        self.peers = []

    def connect(self, kind="tcp"):
        p = Peer(self, kind)
        self.peers.append(p)
        return p

    def settle(self):
        self.net.settle()
        self.loop.drain()

    def in_loop(self, fn):
        """Run a driver-side action inside the running loop (publication creates tasks)."""

        async def go():
            return fn()

        r = self.loop.run_until_complete(go())
        self.settle()
        return r

    def snapshot(self):
        """Every element value / state / enabled flag of every device."""
        snap = {}
        for d, spec in enumerate(self.dep.specs):
            for g, v in self.dep.vectors[d]:
                inst = self.dep.instance(d, g, v)
                for e in v["elements"]:
                    val = getattr(inst, e["attr"])._value
                    if hasattr(val, "binary"):
                        val = ("blob", val.binary, val.format)
                    snap[(spec["name"], v["name"], e["name"])] = val
                snap[(spec["name"], v["name"], "#state")] = inst.state_
                snap[(spec["name"], v["name"], "#enabled")] = inst.enabled
        return snap

    def unhandled(self):
        return list(self.loop._unhandled)

    def close(self):
        self.net.close()


def xml(kind, attrs, children=(), text=None):
    return gen.render_foreign({"kind": kind, "attrs": attrs, "text": text, "children": [dict(c) for c in children]}, [0])


GETPROPS = '<getProperties version="1.7"/>'
