"""C12 - No client message can take a driver, a connection or the server down."""
from __future__ import annotations

import base64

from hypothesis import strategies as st

from harness import gen, session
from harness.core import Failure, Info, lib_exception_failure

ID = "C12"
LEVEL = "fault_enumeration"
SHARDS = {"quick": 8, "thorough": 16}
RULE = (
    "fault enumeration: a catalogue of hostile-but-well-formed client messages (unknown device / property / element, every "
    "new*Vector kind x target vector kind mismatch incl. Light targets, invalid switch / number / base64 text, wrong, non-numeric or "
    "missing BLOB size and format - also with no payload at all, and sizes around 2**63 / 2**64 under compressed formats -, no children, duplicate children, valid and unknown elements mixed, absent values, message kinds "
    "a client should not send - also def*/set*Vector naming elements the property does not have -, getProperties/enableBLOB for unknown targets) x every target vector kind x every insertion position "
    "in a session of valid traffic x transport {TCP handler, TTY handler, direct Router.process_message} x delivery of the hostile "
    "message {one read; two reads cut after the first '>' or 3 characters before the end (TCP); one line per element (TTY)} x "
    "log forwarding to the clients (indi.logging.Handler on the 'indi' logger) {off, on}; 'values' lets Hypothesis "
    "fill names, values and positions. A second driver of the same server snoops on the target device (Driver.snoop_device), so "
    "whatever a hostile client makes the router forward also reaches a mirror inside the server process. Oracle: nothing escapes message handling; the sender is still registered with its writer "
    "open and its handler task running; device snapshots differ from before only at validly named elements and only to the "
    "submitted values; a bystander is still registered and receives the next device update; a valid getProperties and a valid "
    "write sent next on the same connection are answered / applied after one settle with no padding; the driver can then publish the attacked property without anything being "
    "raised. Non-trivial: the hostile "
    "message is not the last message of the session. Distinct = (catalogue entry, target kind, position, transport)."
)
ASSUMPTIONS = [
    "'other clients are not disturbed' is read minimally: still registered, still served",
    "permission (ro) enforcement is not claimed either way; hostile writes target rw/wo/ro vectors alike without asserting rejection",
    "a duplicate child may leave either of the two submitted values",
]

TARGETS = {"Text": ("TXT", "A", "B"), "Number": ("NUM", "A", "S"), "Switch": ("SW", "A", "B"), "BLOB": ("BLB", "A", None), "Light": ("LGT", "A", None)}
VALID = {"Text": "hello", "Number": "2.5", "Switch": "On", "BLOB": base64.b64encode(b"xyz").decode()}


def one(kind, name, text, **attrs):
    a = {"name": name}
    if kind == "BLOB":
        size = attrs.pop("size") if "size" in attrs else str(len(base64.b64decode(text or "")))
        a.update({"size": size, "format": attrs.pop("format", ".bin")})
        a = {k: v for k, v in a.items() if v is not None}
    a.update(attrs)
    return {"kind": f"one{kind}", "attrs": a, "text": text}


def newvec(kind, device, name, children):
    a = {}
    if device is not None:
        a["device"] = device
    if name is not None:
        a["name"] = name
    return session.xml(f"new{kind}Vector", a, children)


def catalogue(tk):
    """Hostile messages against target kind tk: (entry id, xml, allowed changes {(vec, el): [values]}, parser_accepts)"""
    vec, e1, e2 = TARGETS[tk]
    wk = tk if tk != "Light" else "Text"  # there is no newLightVector
    v = VALID[wk]
    out = []
    out.append(("unknown-device", newvec(wk, "NOPE", vec, [one(wk, e1, v)]), {}, True))
    out.append(("unknown-property", newvec(wk, "DEV", "NOPE", [one(wk, e1, v)]), {}, True))
    out.append(("unknown-element", newvec(wk, "DEV", vec, [one(wk, "ZZ", v)]), {}, True))
    if tk != "Light":
        # (the applicable part of a message is applied: 'ignored as far as it cannot be applied')
        out.append(("unknown-and-valid-element", newvec(wk, "DEV", vec, [one(wk, "ZZ", v), one(wk, e1, v)]), {(vec, e1): [v], "required": (vec, e1)}, True))
        out.append(("valid-and-unknown-element", newvec(wk, "DEV", vec, [one(wk, e1, v), one(wk, "ZZ", v)]), {(vec, e1): [v], "required": (vec, e1)}, True))
    else:
        out.append(("write-to-light", newvec("Text", "DEV", vec, [one("Text", e1, "Alert")]), {}, True))
    for k2 in ("Text", "Number", "Switch", "BLOB"):
        if k2 != tk:
            out.append((f"kind-mismatch-{k2}", newvec(k2, "DEV", vec, [one(k2, e1, VALID[k2])]), {}, True))
    out.append(("no-children", newvec(wk, "DEV", vec, []), {}, True))
    out.append(("empty-device-name", newvec(wk, "", vec, [one(wk, e1, v)]), {}, True))
    out.append(("empty-property-name", newvec(wk, "DEV", "", [one(wk, e1, v)]), {}, True))
    out.append(("empty-element-name", newvec(wk, "DEV", vec, [one(wk, "", v)]), {}, True))
    out.append(("device-name-differs-in-case", newvec(wk, "dev", vec, [one(wk, e1, v)]), {}, True))
    out.append(("device-name-with-blank", newvec(wk, "DEV ", vec, [one(wk, e1, v)]), {}, True))
    if tk in ("Text", "Number"):
        alt = "other" if tk == "Text" else "7.25"
        out.append(("duplicate-children", newvec(wk, "DEV", vec, [one(wk, e1, v), one(wk, e1, alt)]), {(vec, e1): [v, alt]}, True))
        out.append(("absent-value", newvec(wk, "DEV", vec, [one(wk, e1, None)]), {(vec, e1): [None]}, True))
    if tk == "Switch":
        out.append(("duplicate-switch-children", newvec("Switch", "DEV", vec, [one("Switch", e1, "On"), one("Switch", e1, "Off"), one("Switch", e1, "On")]), {(vec, e1): "any", (vec, e2): "any"}, True))
        out.append(("invalid-switch-text", newvec("Switch", "DEV", vec, [one("Switch", e1, "Maybe")]), {}, False))
        out.append(("absent-switch-value", newvec("Switch", "DEV", vec, [one("Switch", e1, None)]), {}, False))
    if tk == "Number":
        # syntactically valid numbers no property can hold or render: whatever is done with them, nothing may break
        for huge in ("1e999", "-1e999", "1e308", "9" * 400, "1e-999"):
            out.append(("number-out-of-range", newvec("Number", "DEV", vec, [one("Number", "A", huge)]), {(vec, "A"): "any"}, True))
            out.append(("number-out-of-range-sexagesimal-format", newvec("Number", "DEV", vec, [one("Number", "S", huge)]), {(vec, "S"): "any"}, True))
        out.append(("sexagesimal-minutes-over-59", newvec("Number", "DEV", vec, [one("Number", "A", "1:75")]), {(vec, "A"): "any"}, True))
        out.append(("valid-after-out-of-range", newvec("Number", "DEV", vec, [one("Number", "S", "1e999"), one("Number", "A", "2.5")]), {(vec, "A"): ["2.5"], (vec, "S"): "any"}, True))
        for bad in ("abc", "1:2:3:4", "--1", "1,5"):
            out.append((f"invalid-number-text", newvec("Number", "DEV", vec, [one("Number", e1, bad)]), {}, False))
    if tk == "BLOB":
        good = VALID["BLOB"]
        out.append(("invalid-base64", newvec("BLOB", "DEV", vec, [one("BLOB", e1, "@@@@", size="3")]), {(vec, e1): "any-blob"}, True))
        out.append(("bad-base64-padding", newvec("BLOB", "DEV", vec, [one("BLOB", e1, "QUJ", size="2")]), {}, True))
        out.append(("wrong-blob-size", newvec("BLOB", "DEV", vec, [one("BLOB", e1, good, size="999")]), {}, True))
        out.append(("negative-blob-size", newvec("BLOB", "DEV", vec, [one("BLOB", e1, good, size="-1")]), {}, True))
        out.append(("non-numeric-blob-size", newvec("BLOB", "DEV", vec, [one("BLOB", e1, good, size="abc")]), {}, True))
        # no payload at all together with a size that cannot be right (the rejected value is None, not a string)
        out.append(("empty-blob-wrong-size", newvec("BLOB", "DEV", vec, [one("BLOB", e1, None, size="5")]), {}, True))
        out.append(("empty-blob-non-numeric-size", newvec("BLOB", "DEV", vec, [one("BLOB", e1, None, size="abc")]), {}, True))
        out.append(("empty-blob-wrong-size-then-valid", newvec("BLOB", "DEV", vec, [one("BLOB", e1, None, size="5"), one("BLOB", "B", good)]), {(vec, "B"): [good], "required": (vec, "B")}, True))
        # a "compressed" format with sizes beyond a machine word, or a payload that really is a zlib stream
        import zlib as _z

        zpay = base64.b64encode(_z.compress(b"x" * 64)).decode()
        for sz in ("18446744073709551616", "9223372036854775807", "9223372036854775806", "64", "0"):
            out.append(("compressed-format-odd-size", newvec("BLOB", "DEV", vec, [one("BLOB", e1, zpay, size=sz, format=".fits.z")]), {(vec, e1): "any-blob"}, True))
            out.append(("compressed-format-odd-size-not-zlib", newvec("BLOB", "DEV", vec, [one("BLOB", e1, good, size=sz, format=".z")]), {(vec, e1): "any-blob"}, True))
        out.append(("missing-blob-size", newvec("BLOB", "DEV", vec, [one("BLOB", e1, good, size=None)]), {}, False))
        out.append(("missing-blob-format", newvec("BLOB", "DEV", vec, [one("BLOB", e1, good, format=None)]), {}, False))
    # message kinds a client should not send, addressed to the target property
    set_text = {"Text": "evil", "Number": "66", "Switch": "Off", "Light": "Alert", "BLOB": VALID["BLOB"]}[tk]
    set_attrs = {"name": e1, "size": "3", "format": ".bin"} if tk == "BLOB" else {"name": e1}
    out.append(("should-not-send-set", session.xml(f"set{tk}Vector", {"device": "DEV", "name": vec, "state": "Alert"}, [{"kind": f"one{tk}", "attrs": set_attrs, "text": set_text}]), {}, True))
    # ... also with elements the property does not have (whoever mirrors the device - a snooping driver in the same
    # process, another client - receives them through the router)
    def_child = {"name": "GHOST"}
    if tk == "Number":
        def_child.update({"format": "%g", "min": "0", "max": "1", "step": "1"})
    def_attrs = {"device": "DEV", "name": vec, "state": "Ok"}
    if tk != "Light":
        def_attrs["perm"] = "rw"
    if tk == "Switch":
        def_attrs["rule"] = "AnyOfMany"
    out.append(("should-not-send-def-other-elements", session.xml(f"def{tk}Vector", def_attrs, [{"kind": f"def{tk}", "attrs": def_child, "text": None if tk == "BLOB" else set_text}]), {}, True))
    out.append(("should-not-send-set-unknown-element", session.xml(f"set{tk}Vector", {"device": "DEV", "name": vec, "state": "Ok"}, [{"kind": f"one{tk}", "attrs": dict(set_attrs, name="NOSUCH"), "text": set_text}]), {}, True))
    out.append(("should-not-send-del", session.xml("delProperty", {"device": "DEV", "name": vec}), {}, True))
    out.append(("should-not-send-message", session.xml("message", {"device": "DEV", "message": "I am a device"}), {}, True))
    out.append(("should-not-send-ping", session.xml("pingRequest", {"uid": "1"}), {}, True))
    # attributes outside names and values: a protocol version that is not a number, time stamps in other spellings
    for ver in ("1.7.1", "abc", "", "v1.7", "1e999"):
        out.append(("getProperties-odd-version", session.xml("getProperties", {"version": ver, "device": "DEV"}), {}, True))
        out.append(("getProperties-odd-version-all-devices", session.xml("getProperties", {"version": ver}), {}, True))
    if tk != "Light":
        for ts in ("2026-10-02T12:00:00", "2026-10-02T12:00:00Z", "yesterday", ""):
            a_ = {"device": "DEV", "name": vec, "timestamp": ts}
            out.append(("valid-write-odd-timestamp", session.xml(f"new{wk}Vector", a_, [one(wk, e1, v)]), {(vec, e1): [v], "required": (vec, e1)}, True))
    if tk != "Light":
        # an XML declaration in front of a valid write (Java / .NET writers emit one), naming whatever encoding
        for enc in ("UTF-8", "ISO-8859-1", "x-user-defined", "UCS-2", "UTF-16", "utf-16le", "utf-32be", "cp037", "rot13", "hex", "zlib", "x-no-such-encoding"):
            decl = f'<?xml version="1.0" encoding="{enc}"?>'
            out.append(("valid-write-after-xml-declaration-naming-an-encoding", decl + newvec(wk, "DEV", vec, [one(wk, e1, v)]), {(vec, e1): [v], "required": (vec, e1)}, True))
            out.append(("valid-write-after-xml-declaration-naming-an-encoding", decl + "\n" + newvec(wk, "DEV", vec, [one(wk, e1, v)]), {(vec, e1): [v], "required": (vec, e1)}, True))
    out.append(("getProperties-unknown", session.xml("getProperties", {"version": "1.7", "device": "NOPE", "name": vec}), {}, True))
    out.append(("enableBLOB-unknown-device", session.xml("enableBLOB", {"device": "NOPE", "name": vec}, text="Also"), {}, True))
    out.append(("missing-device-attribute", newvec(wk, None, vec, [one(wk, e1, v)]), {}, False))
    out.append(("missing-name-attribute", newvec(wk, "DEV", None, [one(wk, e1, v)]), {}, False))
    return out


VALID_STEPS = ["hs", "write", "devtext", "write2"]


def snapshot_norm(v):
    if isinstance(v, tuple) and v and v[0] == "blob":
        return ("blob", v[1])
    if isinstance(v, (int, float)) and not isinstance(v, bool):
        return float(v)
    return gen.norm_text(v) if isinstance(v, str) or v is None else v


def allowed_value(kind_vec, submitted):
    """Normal form of a submitted wire value for comparison with a driver snapshot."""
    if submitted is None:
        return None
    if kind_vec == "NUM":
        from harness import refnum

        return float(refnum.parse(submitted))
    if kind_vec == "BLB":
        return ("blob", base64.b64decode(submitted))
    return gen.norm_text(submitted)


def run_case(case):
    """case: {"transport": "tcp"|"tty"|"direct", "hostile": xml, "allowed": {...}, "accepts": bool, "at": position 0..len(VALID_STEPS)}"""
    from indi.message import IndiMessage

    s = session.Session(specs=[session.SIMPLE_SPEC, session.SNOOPER_SPEC])
    log_handler = None
    try:
        if case.get("logfwd"):
            # the server forwards its log records to the clients (indi.logging.Handler), as the example servers do:
            # whatever the library logs about a rejected message then runs through message routing as well
            import logging

            from indi.logging import Handler as _LogForward

            log_handler = _LogForward(s.net.router)
            lg = logging.getLogger("indi")
            log_handler._verif_saved = (lg.level, lg.propagate, logging.root.manager.disable)
            lg.addHandler(log_handler)
            lg.setLevel(logging.WARNING)
            lg.propagate = False
            logging.disable(logging.NOTSET)
        transport = case["transport"]
        drv = s.dep.drivers[0]
        # a second driver in the same server process follows DEV (Driver.snoop_device): it is served by the same router
        s.in_loop(lambda: s.dep.drivers[1].snoop_device("DEV"))
        bystander = s.connect("tcp")
        bystander.send(session.GETPROPS)
        direct_rec = None
        if transport == "direct":
            from harness.props.c07 import Recorder

            direct_rec = Recorder()
            s.net.router.register_client(direct_rec.client)
            peer = None
        else:
            peer = s.connect(transport)
        counter = [0]

        def send(xml_text, split=None):
            if split and transport == "tcp":
                # the message arrives in two reads: "gt1" = the first read ends right after the first '>',
                # "late" = only the last 3 characters come with the second read
                k = (xml_text.index(">") + 1) if split == "gt1" else len(xml_text) - 3
                if 0 < k < len(xml_text):
                    peer.send(xml_text[:k])
                    peer.send(xml_text[k:])
                    return
            if split and transport == "tty":
                # a terminal delivers lines: the message is spread over several of them
                peer.send(xml_text.replace("><", ">\n<"))
                return
            if transport == "direct":
                msg = IndiMessage.from_string(xml_text)

                def go():
                    s.net.router.process_message(msg, sender=direct_rec.client)

                s.in_loop(go)
            else:
                peer.send(xml_text)

        def valid(step):
            counter[0] += 1
            if step == "hs":
                send(session.GETPROPS)
            elif step in ("write", "write2"):
                send(newvec("Text", "DEV", "TXT", [one("Text", "B", f"valid{counter[0]}")]))
                if drv.g.t.b._value != f"valid{counter[0]}":
                    raise Failure("valid-write-not-applied:before-hostile" if not hostile_sent[0] else "valid-write-not-applied:after-hostile", f"TXT.B is {drv.g.t.b._value!r}")
            elif step == "devtext":
                s.in_loop(lambda: setattr(drv.g.t.a, "value", f"dev{counter[0]}"))

        hostile_sent = [False]
        at = case["at"] % (len(VALID_STEPS) + 1)
        for step in VALID_STEPS[:at]:
            valid(step)
        before = s.snapshot()
        where = f"{transport} at={at}: {case['hostile'][:200]!r}"
        try:
            send(case["hostile"], case.get("split"))
        except Failure:
            raise
        except Exception as e:  # noqa
            if transport == "direct" and not case.get("accepts", True):
                return None  # the parser rejects it: it cannot reach the router as an object
            f = lib_exception_failure(e, "escapes-process_message")
            raise Failure(f.sig, f"{where}: {f.msg}")
        hostile_sent[0] = True
        for ctx in s.unhandled():
            exc = ctx.get("exception")
            if exc is not None:
                f = lib_exception_failure(exc, "task-exception")
                raise Failure(f.sig, f"{where}: {f.msg}")
        after = s.snapshot()
        allowed = {tuple(k.split("/")): v for k, v in case["allowed"].items()}
        if case.get("required"):
            rv, re_ = case["required"]
            got_v = after[("DEV", rv, re_)]
            if not any(snapshot_norm(got_v) == allowed_value(rv, x) for x in allowed[(rv, re_)]):
                raise Failure(f"applicable-part-not-applied:{rv}.{re_}", f"{where}: the validly named element still holds {got_v!r}")
        for key in after:
            if snapshot_norm(after[key]) == snapshot_norm(before[key]):
                continue
            dev, vec, el = key
            ok = False
            if (vec, el) in allowed:
                av = allowed[(vec, el)]
                if av == "any":
                    ok = True
                elif av == "any-blob":
                    ok = isinstance(after[key], tuple)
                else:
                    ok = any(snapshot_norm(after[key]) == allowed_value(vec, x) for x in av)
            elif vec == "SW" and (("SW", "A") in allowed or ("SW", "B") in allowed):
                ok = True  # the switch rule may flip the sibling
            if not ok:
                raise Failure(f"state-changed:{vec}.{el}", f"{where}: {key} changed from {before[key]!r} to {after[key]!r}")
        # the sender is still there and served
        if peer is not None:
            if not peer.registered or peer.task.done() or (peer.kind == "tcp" and peer.writer_closed):
                exc = peer.task.exception() if peer.task.done() and not peer.task.cancelled() else None
                raise Failure(f"sender-connection-lost:{transport}", f"{where}: registered={peer.registered} task_done={peer.task.done()} {exc!r}")
            peer.new_output()
            peer.send(session.xml("getProperties", {"version": "1.7", "device": "DEV", "name": "NUM"}))
            els = peer.elements(peer.new_output())
            if not any(e.tag == "defNumberVector" and e.get("name") == "NUM" for e in els):
                raise Failure(f"next-request-not-answered:{transport}", f"{where}: getProperties sent right after elicited {[e.tag for e in els]}")
        # the addressed property still works: a valid write to it is applied and published
        tk = case.get("target")
        if tk in ("Text", "Number", "Switch"):
            vec, e1, e2 = TARGETS[tk]
            good = {"Text": "still-works", "Number": "1:30:00", "Switch": "On"}[tk]
            send(newvec(tk, "DEV", vec, [one(tk, e2, good)]))
            inst_el = getattr(getattr(drv.g, {"TXT": "t", "NUM": "n", "SW": "s"}[vec]), {"A": "a", "B": "b", "S": "s"}[e2])
            got = inst_el._value
            ok = (got == "still-works") if tk == "Text" else (got is not None and abs(float(got) - 1.5) < 1e-9) if tk == "Number" else got == "On"
            if not ok:
                raise Failure(f"target-property-broken-afterwards:{tk}", f"{where}: a valid write to {vec}.{e2} sent afterwards left {got!r}")
        # ... and the driver can still publish it (every mirror of it is updated from inside the publication)
        if tk in TARGETS:
            vec, e1, e2 = TARGETS[tk]
            inst_el = getattr(getattr(drv.g, {"TXT": "t", "NUM": "n", "SW": "s", "BLB": "bl", "LGT": "l"}[vec]), "a")
            newval = {"Text": "published", "Number": 3.25, "Switch": "On", "Light": "Busy", "BLOB": None}[tk]
            if tk == "BLOB":
                from indi.device.values import BLOB as _B

                newval = _B(binary=b"pub", format=".bin")
            try:
                s.in_loop(lambda: setattr(inst_el, "value", newval))
            except Failure:
                raise
            except Exception as e:  # noqa
                f = lib_exception_failure(e, "publication-raises-afterwards")
                raise Failure(f.sig, f"{where}: driver-side update of {vec}.A afterwards: {f.msg}")
        for step in VALID_STEPS[at:]:
            valid(step)
        # bystander still served
        if not bystander.registered or bystander.task.done():
            raise Failure("bystander-disturbed", where)
        bystander.new_output()
        s.in_loop(lambda: setattr(drv.g.t.a, "value", "final"))
        if not any(e.tag == "setTextVector" and any(c.text == "final" for c in e) for e in bystander.elements(bystander.new_output())):
            raise Failure("bystander-not-served", where)
        return at < len(VALID_STEPS)
    finally:
        if log_handler is not None:
            import logging

            lg = logging.getLogger("indi")
            lg.removeHandler(log_handler)
            lg.setLevel(log_handler._verif_saved[0])
            lg.propagate = log_handler._verif_saved[1]
            logging.disable(log_handler._verif_saved[2])
        s.close()


def check_case(case):
    r = run_case(case)
    if r is None:
        return Info(nontrivial=False, labels=["skipped-parser-rejects-direct"])
    return Info(nontrivial=bool(r), labels=[case["transport"], case.get("entry", "generated")])


def check_block(case):
    """All catalogue entries x all positions for (target kind, transport)."""
    n = nt = 0
    counts = {}
    for entry, xml, allowed, accepts in catalogue(case["target"]):
        for at in range(len(VALID_STEPS) + 1):
          for split in {"tcp": (None, "gt1", "late"), "tty": (None, "lines"), "direct": (None,)}[case["transport"]]:
            sub = {"transport": case["transport"], "hostile": xml, "allowed": {"/".join(k): v for k, v in allowed.items() if k != "required"}, "required": list(allowed["required"]) if "required" in allowed else None, "accepts": accepts, "at": at, "entry": entry, "target": case["target"], "split": split, "logfwd": bool(case.get("logfwd"))}
            try:
                r = run_case(sub)
            except Failure as f:
                f.sig = f"{f.sig}:{entry}"
                f.min_case = sub
                f.min_sub = "single"
                raise
            if r is None:
                continue
            n += 1
            nt += bool(r)
            counts[entry] = counts.get(entry, 0) + 1
    return Info(n_eval=n, n_nontrivial=nt, label_counts={case["transport"]: n, "target-" + case["target"]: n, "log-forwarding" if case.get("logfwd") else "no-log-forwarding": n})


# Hypothesis: names / values / kinds drawn freely (well-formed, parser-acceptable or not)
name_st = st.sampled_from(["DEV", "NOPE", "", "dev", "DEV "])
vec_st = st.sampled_from(["TXT", "NUM", "SW", "BLB", "LGT", "NOPE", ""])
el_st = st.sampled_from(["A", "B", "S", "ZZ", ""])


@st.composite
def generated_hostile(draw):
    k = draw(st.sampled_from(["Text", "Number", "Switch", "BLOB"]))
    children = []
    for _ in range(draw(st.integers(0, 3))):
        if k == "BLOB":
            children.append(one("BLOB", draw(el_st), draw(st.sampled_from([VALID["BLOB"], "@@", "QUJ", None, "QUJD QUJD"])), size=draw(st.sampled_from(["3", "0", "999", "x", "3.0"]))))
        else:
            text = draw(st.sampled_from([VALID[k], "Off", "On", "1:30", "-0:30:00", "1e3", "x", None, "9" * 30, "1e999", "-1e400", "1e308", "9" * 400, "0.000000000000000000001", "1e-400"]) | gen.stripped_text(3))
            children.append(one(k, draw(el_st), text))
    xml = newvec(k, draw(name_st), draw(vec_st), children)
    return {"transport": draw(st.sampled_from(["tcp", "tty", "direct"])), "hostile": xml, "allowed": {"*": "*"}, "accepts": False, "at": draw(st.integers(0, 4)), "split": draw(st.sampled_from([None, None, "gt1", "late", "lines"])), "logfwd": draw(st.booleans())}


def check_generated(case):
    """Free-form hostile writes: only validly named elements of the addressed vector may change (to anything)."""
    import re

    m = re.search(r'<new\w+Vector device="([^"]*)" name="([^"]*)"', case["hostile"])
    addressed = m.group(2) if m and m.group(1) == "DEV" else None
    names = set(re.findall(r'<one\w+ [^>]*name="([^"]*)"', case["hostile"]))
    allowed = {f"{addressed}/{e}": "any" for e in names} if addressed else {}
    r = run_case({**case, "allowed": allowed})
    if r is None:
        return Info(nontrivial=False, labels=["skipped-parser-rejects-direct"])
    return Info(nontrivial=bool(r), labels=[case["transport"], "generated"])


SUBCHECKS = {"catalogue": check_block, "single": check_case, "values": check_generated}


def blocks():
    for target in TARGETS:
        for transport in ("tcp", "tty", "direct"):
            yield {"target": target, "transport": transport}
            yield {"target": target, "transport": transport, "logfwd": True}


def run(ctx):
    cnt = ctx.each("catalogue", blocks(), check_block, stop_after=8, timeout=150)
    ctx.exhaustive["catalogue"] = {"complete": True, "n_blocks": cnt, "bound": "every catalogue entry x 5 target kinds x every insertion position x 3 transports"}
    ctx.hyp("values", generated_hostile(), check_generated, ctx.scale(150, 4000))
