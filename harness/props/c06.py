"""C06 - A client's write changes exactly the addressed element, to the value sent."""
from __future__ import annotations

from hypothesis import strategies as st

from harness import drivers, gen, refnum, stack
from harness.core import Failure, Info, lib_exception_failure

ID = "C06"
LEVEL = "exploration"
SHARDS = {"quick": 8, "thorough": 16}
RULE = (
    "generated deployments (1-3 devices, all vector kinds, inheritance, enable flags) behind the real server connection handlers, a "
    "real network Client connected through fake pipes with generated fragmentation of both directions, which may refresh single devices (device-specific getProperties) between its handshake and the write; target = (device, enabled "
    "non-light non-read-only vector, non-empty subset of its enabled elements); values from the element's domain: text "
    "(XML-representable, stripped), switch On/Off, numbers as Python int/float AND as strings in decimal or sexagesimal notation "
    "with ':' ';' or blank separators, byte strings with a format. The client assigns and submits; after settling, a snapshot of "
    "every element / state / enable flag of every device is compared with the one taken before: targeted elements hold the "
    "submitted value (text verbatim, numbers equal to the value the sent text denotes, BLOB bytes/format/size identical, switches "
    "per the rule with the last On written On), everything else is unchanged, and the client's own view equals the drivers' state. "
    "Non-trivial: the deployment has >= 2 vectors and >= 1 submitted value differs from the old one; distinct = canonical JSON."
)
ASSUMPTIONS = [
    "read-only vectors are not targeted (permission enforcement is not claimed either way)",
    "uploads stay under the 2048-character framing threshold of the server side (payload size is C08's subject)",
]


def sexagesimal(n, sep, frac_digits, plus=False):
    sign = "-" if n < 0 else ("+" if plus else "")
    a = abs(float(n))
    deg = int(a)
    m = int((a - deg) * 60)
    s = ((a - deg) * 60 - m) * 60
    s = min(s, 59.99)
    if frac_digits == 0:
        return f"{sign}{deg}{sep}{m:02d}{sep}{int(s):02d}"
    if frac_digits < 0:
        return f"{sign}{deg}{sep}{m:02d}"
    return f"{sign}{deg}{sep}{m:02d}{sep}{s:0{3 + frac_digits}.{frac_digits}f}"


def submitted_value(kind, val):
    """-> (python object assigned on the client, comparable normal form)"""
    if kind == "Text":
        return val["t"], gen.norm_text(val["t"])
    if kind == "Switch":
        v = "On" if val["s"] else "Off"
        return v, v
    if kind == "Number":
        mode = val.get("mode", "py")
        n = val["n"]
        if mode == "py":
            return n, float(refnum.parse(str(n)))
        if mode == "dec":
            s = f"{float(n):.4f}" if val.get("frac", 0) else str(int(n))
            if val.get("plus") and not s.startswith("-"):
                s = "+" + s
            return s, float(refnum.parse(s))
        s = sexagesimal(n, val.get("sep", ":"), val.get("frac", 0), val.get("plus", False))
        return s, float(refnum.parse(s))
    if kind == "BLOB":
        from indi.device import values

        b = bytes.fromhex(val["b"] or "")
        return values.BLOB(b, val["f"]), (("blob", b, val["f"]) if b else None)  # zero-length payload == no BLOB
    raise AssertionError(kind)


def snap_norm(kind, v):
    if kind == "BLOB":
        return None if (v is None or len(v.binary) == 0) else ("blob", v.binary, v.format)
    if kind == "Number":
        return None if v is None else float(v)
    return gen.norm_text(v) if (v is None or isinstance(v, str)) else v


def snapshot(dep):
    snap = {}
    for d, spec in enumerate(dep.specs):
        for g, v in dep.vectors[d]:
            inst = dep.instance(d, g, v)
            for e in v["elements"]:
                snap[(d, v["name"], e["name"])] = snap_norm(v["kind"], getattr(inst, e["attr"])._value)
            snap[(d, v["name"], "#state")] = inst.state_
            snap[(d, v["name"], "#enabled")] = inst.enabled
    return snap


def check_write(case):
    """case: {"devices": [...], "frags": {...}, "d": int, "v": int, "els": [int...], "vals": [val...]}"""
    st_ = None
    try:
        st_ = stack.Stack(case["devices"], case.get("frags"), early=case.get("early", ()))
        dep = st_.dep
        # candidates: enabled, writable, non-light vectors
        cands = []
        for d, spec in enumerate(dep.specs):
            for g, v in dep.vectors[d]:
                if v["kind"] != "Light" and v.get("perm", "rw") != "ro" and dep.is_enabled(d, g, v) and any(e["enabled"] for e in v["elements"]):
                    cands.append((d, g, v))
        # (a BLOB the driver holds from the start is unknown to the client until it is published: definitions carry no payload)
        stack.compare_views(dep, st_.client, lambda *a: "equal-or-absent")
        if not cands:
            return Info(nontrivial=False, labels=["no-writable-target"])
        # the application may refresh one device first (Client.handshake(device=...), what waitforevent's polling does too)
        asked = case.get("ask") or []
        for a_ in asked:
            dev_name = dep.specs[a_ % len(dep.specs)]["name"] if a_ < 6 else "NOSUCH"
            st_.in_loop(lambda dev_name=dev_name: st_.client.handshake(device=dev_name))
        d, g, v = cands[(case["d"] * 7 + case["v"]) % len(cands)]
        spec = dep.specs[d]
        kind = v["kind"]
        enabled_els = [e for e in v["elements"] if e["enabled"]]
        idxs = sorted({i % len(enabled_els) for i in case["els"]}) or [0]
        before = snapshot(dep)
        cvec = st_.client[spec["name"]][v["name"]]
        submitted = {}
        order = []
        for k, i in enumerate(idxs):
            e = enabled_els[i]
            val = case["vals"][k % len(case["vals"])]
            obj, normal = submitted_value(kind, val)
            submitted[e["name"]] = normal
            order.append((e["name"], normal))
            try:
                cvec[e["name"]].value = obj
            except Exception as exc:  # noqa
                raise lib_exception_failure(exc, f"client-assign:{kind}")
        where = f"{spec['name']}.{v['name']} ({kind}, rule {v.get('rule')}) submitted {order}"
        try:
            st_.in_loop(lambda: cvec.submit())
        except Failure:
            raise
        except Exception as exc:  # noqa
            f = lib_exception_failure(exc, f"submit:{kind}")
            raise Failure(f.sig, f"{where}: {f.msg}")
        after = snapshot(dep)
        changed_any = False
        for key, b in before.items():
            a = after[key]
            dd, vn, en = key
            if dd == d and vn == v["name"] and en in submitted:
                want = submitted[en]
                if kind == "Switch" and v.get("rule") != "AnyOfMany":
                    continue  # judged below, by the rule
                if kind == "Number":
                    ok = a is not None and abs(a - want) <= 1e-9 * max(1.0, abs(want))
                elif kind == "Text":
                    ok = gen.norm_text(a) == want
                else:
                    ok = a == want
                if not ok:
                    raise Failure(f"target-not-updated:{kind}", f"{where}: {en} holds {a!r}, submitted {want!r} (was {b!r})")
                changed_any = changed_any or a != b
            elif dd == d and vn == v["name"] and kind == "Switch" and v.get("rule") != "AnyOfMany" and not en.startswith("#"):
                continue
            elif a != b:
                raise Failure(f"other-state-changed:{'same-vector' if (dd == d and vn == v['name']) else 'other-vector' if dd == d else 'other-device'}", f"{where}: {key} changed from {b!r} to {a!r}")
        if kind == "Switch" and v.get("rule") != "AnyOfMany":
            # what "the submitted values, subject only to the switch rule" means, applied in the order sent:
            # On switches every other switch Off; Off is taken, except that OneOfMany keeps its last On switch On
            model = {e["name"]: before[(d, v["name"], e["name"])] for e in v["elements"]}
            for n_, val_ in order:
                if val_ == "On":
                    for k_ in model:
                        model[k_] = "Off"
                    model[n_] = "On"
                elif v["rule"] == "OneOfMany" and not any(x == "On" for k_, x in model.items() if k_ != n_):
                    model[n_] = "On"
                else:
                    model[n_] = "Off"
            if sum(1 for x in model.values() if x == "On") <= 1 and sum(1 for e in v["elements"] if before[(d, v["name"], e["name"])] == "On") <= 1:
                for n_, want_ in model.items():
                    got_ = after[(d, v["name"], n_)]
                    if got_ != want_:
                        raise Failure(f"switch-write-not-applied:{v['rule']}", f"{where}: {n_} is {got_}, the rule applied to the submitted values gives {want_} (before: { {e['name']: before[(d, v['name'], e['name'])] for e in v['elements']} })")
            names = [e["name"] for e in v["elements"]]
            on_before = sum(1 for n in names if before[(d, v["name"], n)] == "On")
            on_after = [n for n in names if after[(d, v["name"], n)] == "On"]
            if v["rule"] == "OneOfMany" and on_before == 1 and len(on_after) != 1:
                raise Failure("switch-rule:OneOfMany", f"{where}: On after = {on_after}")
            if len(on_after) > 1 and on_before <= 1:
                raise Failure(f"switch-rule:{v['rule']}", f"{where}: On after = {on_after}")
            ons = [n for n, val in order if val == "On"]
            if ons and on_before <= 1 and ons[-1] not in on_after:
                raise Failure("switch-last-on-not-on", f"{where}: On after = {on_after}")
            for n in names:
                # switches neither named nor forced by the rule keep their value when nothing was turned On
                if not ons and n not in submitted and after[(d, v["name"], n)] != before[(d, v["name"], n)]:
                    raise Failure("other-state-changed:same-vector", f"{where}: {n} changed")
            changed_any = changed_any or any(after[(d, v["name"], n)] != before[(d, v["name"], n)] for n in names)
        # the client's own view shows the new values (the update lists every element of the written property)
        target_names = (dep.specs[d]["name"], v["name"])
        stack.compare_views(dep, st_.client, lambda dn, vn, en: "equal" if (dn, vn) == target_names else "equal-or-absent")
        # a second submit() without new assignments must not write anything again
        if kind in ("Text", "Number"):
            # the driver moves on; a stale re-send of the earlier value would overwrite this
            first = [e for e in enabled_els if e["name"] == order[0][0]][0]
            inst_el = getattr(dep.instance(d, g, v), first["attr"])
            fresh = "fresh-value" if kind == "Text" else (submitted[first["name"]] + 1.0)
            st_.in_loop(lambda: setattr(inst_el, "value", fresh))
        snap2 = snapshot(dep)
        st_.in_loop(lambda: cvec.submit())
        snap3 = snapshot(dep)
        if snap3 != snap2:
            diff = [k for k in snap2 if snap2[k] != snap3[k]]
            raise Failure("resubmit-writes-again", f"{where}: submit() without new values changed {diff}")
        nvec = sum(len(vs) for vs in dep.vectors)
        labels = [kind, f"devices={len(dep.specs)}", f"elements={len(idxs)}"]
        if kind == "Number":
            labels += [f"number-{case['vals'][k % len(case['vals'])].get('mode', 'py')}" for k in range(len(idxs))]
        return Info(nontrivial=nvec >= 2 and changed_any, labels=sorted(set(labels)))
    finally:
        if st_ is not None:
            st_.close()


frag = st.lists(st.sampled_from([1, 2, 5, 17, 100, 1024]), min_size=1, max_size=3)
frags_st = st.fixed_dictionaries({"c2s": frag, "s2c": frag, "b2s": frag, "s2b": frag})
val_st = st.fixed_dictionaries(
    {
        "t": drivers.short_text,
        "n": drivers.number_value(),
        "s": st.booleans(),
        "b": st.binary(max_size=24).map(lambda b: b.hex()),
        "f": st.sampled_from([".bin", ".fits", ""]),
        "mode": st.sampled_from(["py", "dec", "sexa"]),
        "sep": st.sampled_from([":", ";", " "]),
        "frac": st.sampled_from([-1, 0, 1, 2]),
        "plus": st.booleans(),
    }
)
case_st = st.fixed_dictionaries(
    {
        "devices": drivers.deployment(max_devices=3, max_depth=2).filter(lambda specs: all(drivers.spec_size_ok(s) for s in specs)),
        "frags": frags_st,
        "d": st.integers(0, 5),
        "v": st.integers(0, 8),
        "els": st.lists(st.integers(0, 3), min_size=1, max_size=3),
        "vals": st.lists(val_st, min_size=1, max_size=3),
        # devices whose name is addressed (getProperties of a snooper-to-be) before the driver is constructed
        "early": st.lists(st.integers(0, 2), max_size=2),
        # device-specific getProperties sent by the client between the global handshake and the write
        "ask": st.lists(st.integers(0, 6), max_size=2),
    }
)

SUBCHECKS = {"write": check_write}


def run(ctx):
    ctx.hyp("write", case_st, check_write, ctx.scale(150, 3000), timeout=60)
