"""C09 - Switch properties always satisfy their rule."""
from __future__ import annotations

import itertools

from hypothesis import strategies as st

from harness import drivers, gen
from harness.core import Failure, Info

ID = "C09"
LEVEL = "exploration"
SHARDS = {"quick": 8, "thorough": 16}
ALL_EXHAUSTIVE = False
RULE = (
    "'graph': exhaustive enumeration of the state graph: rule in 3 x n in 1..5 (quick) / 1..6 (thorough) switches x every initial "
    "configuration allowed by the rule's static constraint (built through default_on) x every operation {client newSwitchVector "
    "naming one switch On/Off; naming 2 (quick) or up to 3 (thorough) distinct switches in every order with every value "
    "combination; driver value=On/Off; bool_value=True/False; selected_value=name; selected_values=every subset}; each (state, op) "
    "pair runs on a fresh driver instance attached to a real Router with a recording client; the successor must stay inside the "
    "enumerated state set. 'history': Hypothesis histories (n <= 8, <= 30 ops, client writes parsed from wire text half of the "
    "time) on one live instance. Oracle: rule invariants on the after-state AND on every setSwitchVector published during the op; "
    "a switch turned On by a single assignment is On afterwards and in the message published for it; AnyOfMany changes only named "
    "switches; the last published message equals the final state. 'hidden': histories that also hide and show switches (element-level "
    "enabled flag): the rule is asserted over all switches of the property, hidden ones included. 'handlers': histories on a driver "
    "whose switches have plain Change handlers that re-publish the vector or turn a fallback switch On while they run, or with a Read handler whose k-th poll raises: 'veto': a Write handler declining values of one switch (prevent_default) x every client write of 1..n switches, exhaustively for n <= 3 / 4: no state a "
    "handler sees and no update published may break the rule. Non-trivial: the op turns Off the only On switch, or names >= 2 "
    "switches, or uses selected_value(s). Transitions are distinct by construction."
)
ASSUMPTIONS = ["for OneOfMany the guarantee 'exactly one On' is asserted from states that have one On (as the statement says); from zero On, at most one"]


def make_spec(rule, n, on):
    els = [{"attr": f"e{i}", "name": f"S{i}", "label": None, "default": None, "enabled": True} for i in range(n)]
    v = {"attr": "sw", "kind": "Switch", "name": "SW", "label": None, "state": "Ok", "perm": "rw", "timeout": 0, "enabled": True,
         "rule": rule, "default_on": [f"S{i}" for i in on], "elements": els}
    return {"name": "DEV", "chain": [{"groups": [{"attr": "g", "name": "G", "enabled": True, "vectors": [v]}]}]}


class Rig:
    def __init__(self, rule, n, on, cls=None):
        from indi.routing import Client, Router

        rig = self
        self.published = []

        class Rec(Client):
            def message_from_device(self, message):
                rig.published.append(message)

        self.router = Router()
        self.cls = cls or drivers.build_class(make_spec(rule, n, on))
        self.driver = self.cls(router=self.router)
        self.router.register_client(Rec())
        self.vec = self.driver.g.sw
        self.n = n
        self.rule = rule

    def state(self):
        return tuple(getattr(self.vec, f"e{i}")._value == "On" for i in range(self.n))

    def apply(self, op):
        """op: ["client", [[i, bool], ...], wire?] | ["value", i, bool] | ["bool", i, bool] | ["sel", i] | ["sels", [i...]]"""
        from indi import message
        from indi.message import one_parts

        kind = op[0]
        if kind == "client":
            children = tuple(one_parts.OneSwitch(name=f"S{i % self.n}", value="On" if v else "Off") for i, v in op[1])
            msg = message.NewSwitchVector(device="DEV", name="SW", children=children)
            if len(op) > 2 and op[2]:
                msg = message.IndiMessage.from_string(msg.to_string())
            self.router.process_message(msg, sender=None)
        elif kind == "value":
            getattr(self.vec, f"e{op[1] % self.n}").value = "On" if op[2] else "Off"
        elif kind == "bool":
            getattr(self.vec, f"e{op[1] % self.n}").bool_value = bool(op[2])
        elif kind == "sel":
            self.vec.selected_value = f"S{op[1] % self.n}"
        elif kind == "sels":
            self.vec.selected_values = [f"S{i % self.n}" for i in op[1]]
        else:
            raise AssertionError(op)


def named(op, n):
    if op[0] == "client":
        return [(i % n, bool(v)) for i, v in op[1]]
    if op[0] in ("value", "bool"):
        return [(op[1] % n, bool(op[2]))]
    return None  # selected_value(s): a batch assignment naming every switch (see batch_target)


def batch_target(op, n):
    """selected_value = X / selected_values = S assign the whole vector: X (or S) On, the rest Off."""
    if op[0] == "sel":
        return {op[1] % n}
    if op[0] == "sels":
        return {i % n for i in op[1]}
    return None


def check_rule_state(rule, before_on, state, what):
    k = sum(state)
    if rule == "OneOfMany":
        if before_on == 1 and k != 1:
            raise Failure(f"OneOfMany-not-exactly-one:{what}", f"{k} switches On ({state}) where one was On before")
        if before_on == 0 and k > 1:
            raise Failure(f"OneOfMany-more-than-one:{what}", f"{k} switches On ({state})")
    elif rule == "AtMostOne":
        if k > 1:
            raise Failure(f"AtMostOne-more-than-one:{what}", f"{k} switches On ({state})")


def transition(rig, op):
    """Apply op on rig, check every invariant; returns (after_state, nontrivial)."""
    n, rule = rig.n, rig.rule
    before = rig.state()
    before_on = sum(before)
    rig.published.clear()
    try:
        rig.apply(op)
    except Exception as e:  # noqa
        raise Failure(f"raises:{op[0]}:{type(e).__name__}", f"{rule} n={n} state={before} op={op}: {type(e).__name__}: {e}")
    after = rig.state()
    msgs = []
    for m in rig.published:
        if m.__class__.tag_name() != "setSwitchVector":
            raise Failure("unexpected-publication", f"{m.__class__.tag_name()} published by {op}")
        vals = {c.name: c.value for c in m.children}
        if sorted(vals) != [f"S{i}" for i in range(n)] or any(v not in ("On", "Off") for v in vals.values()):
            raise Failure("malformed-publication", f"{vals}")
        msgs.append(tuple(vals[f"S{i}"] == "On" for i in range(n)))
    ctx = f"{rule} n={n} before={before} op={op} after={after} published={msgs}"
    try:
        check_rule_state(rule, before_on, after, "state")
        running_on = before_on
        for s in msgs:
            check_rule_state(rule, min(running_on, 1) if rule == "OneOfMany" else running_on, s, "published")
            running_on = sum(s)
    except Failure as f:
        raise Failure(f.sig, f"{ctx}: {f.msg}")
    names = named(op, n)
    if names is not None:
        if rule == "AnyOfMany":
            last = {}
            for i, v in names:
                last[i] = v
            for i in range(n):
                want = last.get(i, before[i])
                if after[i] != want:
                    raise Failure("AnyOfMany-wrong-switch-changed" if i not in last else "AnyOfMany-assignment-not-applied", f"{ctx}: switch {i} is {after[i]}, expected {want}")
        ons = [i for i, v in names if v]
        if ons:
            # turning a switch On leaves it On: the switch written On last (unless the same message turns that very
            # switch Off again later) must be On afterwards
            last_on = ons[-1]
            final = {}
            for i, v in names:
                final[i] = v
            if final[last_on] and not after[last_on]:
                raise Failure("turned-on-not-on", f"{ctx}: switch {last_on} was turned On last but is Off")
        if len(names) == 1 and names[0][1] and msgs:
            if not msgs[-1][names[0][0]]:
                raise Failure("turned-on-not-on-in-publication", f"{ctx}")
    target = batch_target(op, n)
    if target is not None:
        if rule == "AnyOfMany":
            if {i for i in range(n) if after[i]} != target:
                raise Failure("AnyOfMany-selection-not-applied", f"{ctx}: selected {sorted(target)}")
        elif len(target) == 1 and not after[next(iter(target))]:
            raise Failure("turned-on-not-on", f"{ctx}: selected switch {sorted(target)} is Off")
    if msgs and msgs[-1] != after:
        raise Failure("last-publication-stale", f"{ctx}: last published {msgs[-1]} != final state {after}")
    if before != after and not msgs:
        raise Failure("change-not-published", f"{ctx}")
    nt = (names is None) or len(names) >= 2 or (before_on == 1 and len(names) == 1 and not names[0][1] and before[names[0][0]])
    return after, nt


def allowed_states(rule, n):
    for bits in itertools.product([False, True], repeat=n):
        k = sum(bits)
        if rule in ("OneOfMany", "AtMostOne") and k > 1:
            continue
        yield bits


def ops_for(n, multi):
    for i in range(n):
        for v in (True, False):
            yield ["client", [[i, v]], False]
            yield ["client", [[i, v]], True]
            yield ["value", i, v]
            yield ["bool", i, v]
        yield ["sel", i]
    for r in range(2, multi + 1):
        for idx in itertools.permutations(range(n), r):
            for vals in itertools.product([True, False], repeat=r):
                yield ["client", [[i, v] for i, v in zip(idx, vals)], False]
    for r in range(0, n + 1):
        for sub in itertools.combinations(range(n), r):
            yield ["sels", list(sub)]


def check_graph_block(case):
    """case: {"rule", "n", "on": [indices], "multi": 2|3, "only": op?}"""
    rule, n, on = case["rule"], case["n"], case["on"]
    cls = drivers.build_class(make_spec(rule, n, on))
    allowed = set(allowed_states(rule, n))
    n_eval = n_nt = 0
    ops = [case["only"]] if case.get("only") else ops_for(n, case.get("multi", 2))
    for op in ops:
        rig = Rig(rule, n, on, cls=cls)
        want0 = tuple(i in on for i in range(n))
        if rig.state() != want0:
            raise Failure("initial-state", f"{rule} n={n}: default_on={on} gives {rig.state()}")
        try:
            after, nt = transition(rig, op)
        except Failure as f:
            f.min_case = {**case, "only": op}
            raise
        if after not in allowed:
            f = Failure("successor-outside-rule", f"{rule} n={n} from {want0} by {op} reaches {after}")
            f.min_case = {**case, "only": op}
            raise f
        n_eval += 1
        n_nt += bool(nt)
    return Info(n_eval=n_eval, n_nontrivial=n_nt, label_counts={rule: n_eval})


def check_history(case):
    """case: {"rule", "n", "on": [...], "ops": [...]}"""
    n = case["n"]
    on = sorted({i % n for i in case["on"]})
    if case["rule"] != "AnyOfMany":
        on = on[:1]
    rig = Rig(case["rule"], n, on)
    nt = False
    for op in case["ops"]:
        _, t = transition(rig, op)
        nt = nt or t
    return Info(nontrivial=nt and len(case["ops"]) >= 2, labels=[case["rule"], f"n={n}"])


def check_hidden(case):
    """Histories in which switches are also hidden and shown again (element-level `enabled`): a hidden switch is still a
    switch of the property, so the rule holds over ALL switches. case: {"rule", "n", "on", "ops"} with ["hide", i, bool] ops."""
    n = case["n"]
    on = sorted({i % n for i in case["on"]})
    if case["rule"] != "AnyOfMany":
        on = on[:1]
    rig = Rig(case["rule"], n, on)
    hidden = set()
    nt = False
    for op in case["ops"]:
        if op[0] == "hide":
            i = op[1] % n
            getattr(rig.vec, f"e{i}").enabled = not op[2]
            (hidden.add if op[2] else hidden.discard)(i)
            continue
        if not hidden:
            transition(rig, op)
            continue
        before = rig.state()
        try:
            rig.apply(op)
        except Exception as e:  # noqa
            raise Failure(f"raises:{op[0]}:{type(e).__name__}:hidden", f"{case['rule']} n={n} state={before} hidden={sorted(hidden)} op={op}: {type(e).__name__}: {e}")
        after = rig.state()
        ctx = f"{case['rule']} n={n} before={before} hidden={sorted(hidden)} op={op} after={after}"
        try:
            check_rule_state(case["rule"], sum(before), after, "state-with-hidden-switch")
        except Failure as f:
            raise Failure(f.sig, f"{ctx}: {f.msg}")
        names = named(op, n)
        if names and len(names) == 1 and names[0][1] and not after[names[0][0]]:
            raise Failure("turned-on-not-on:hidden", ctx)
        nt = nt or any(before[i] for i in hidden)
    return Info(nontrivial=nt, labels=[case["rule"], f"n={n}", "hidden-switch-was-on" if nt else "hidden-switch-off"])


def check_with_handlers(case):
    """The same histories on a driver whose switches have plain Change handlers that act on the vector while they run:
    'publish' re-publishes it (state_ assignment), 'fallback' turns a fixed switch On when their own switch went Off.
    Whatever handlers do, they must never get to see - or publish - a state that breaks the rule.
    case: {"rule", "n", "on", "ops", "mode": "publish"|"fallback"|"observe", "fallback": i}"""
    from indi.device import events

    n = case["n"]
    on = sorted({i % n for i in case["on"]})
    if case["rule"] != "AnyOfMany":
        on = on[:1]
    rig = Rig(case["rule"], n, on)
    seen = []
    fb = case.get("fallback", 0) % n

    def make(i):
        def cb(event):
            seen.append(rig.state())
            if case["mode"] == "publish":
                rig.vec.state_ = "Busy"
            elif case["mode"] == "fallback" and event.new_value == "Off" and i != fb:
                getattr(rig.vec, f"e{fb}").value = "On"

        return cb

    reads = {"n": 0}

    def failing_read(event):
        # a hardware poll that fails now and then (the k-th Read event of the history raises)
        reads["n"] += 1
        if reads["n"] == 1 + case.get("fail_at", 0) % 7:
            raise RuntimeError("transient hardware I/O error while polling (generated)")

    for i in range(n):
        if case["mode"] == "read-raises":
            getattr(rig.vec, f"e{i}")._definition.attach_event_handler(events.Read, failing_read)
        else:
            getattr(rig.vec, f"e{i}")._definition.attach_event_handler(events.Change, make(i))
    nt = False
    for op in case["ops"]:
        before = rig.state()
        rig.published.clear()
        seen.clear()
        try:
            rig.apply(op)
        except Exception as e:  # noqa
            if not (case["mode"] == "read-raises" and isinstance(e, RuntimeError) and "generated" in str(e)):
                raise Failure(f"raises:{op[0]}:{type(e).__name__}:handlers", f"{case['rule']} n={n} state={before} op={op} mode={case['mode']}: {type(e).__name__}: {e}")
            seen.append(rig.state())  # the handler's own failure surfaces to the caller; the property must still hold afterwards
        after = rig.state()
        ctx = f"{case['rule']} n={n} mode={case['mode']} before={before} op={op} after={after}"
        pubs = []
        for m in rig.published:
            if m.__class__.tag_name() == "setSwitchVector":
                vals = {c.name: c.value for c in m.children}
                pubs.append(tuple(vals.get(f"S{i}") == "On" for i in range(n)))
        try:
            check_rule_state(case["rule"], sum(before), after, "state-with-handlers")
            k = sum(before)
            for s_ in pubs:
                check_rule_state(case["rule"], min(k, 1) if case["rule"] == "OneOfMany" else k, s_, "published-with-handlers")
                k = sum(s_)
            if case["rule"] != "AnyOfMany":
                for s_ in seen:
                    if sum(s_) > 1:
                        raise Failure(f"{case['rule']}-more-than-one:seen-by-handler", f"a Change handler ran while {s_} was the state")
        except Failure as f:
            raise Failure(f.sig, f"{ctx} published={pubs}: {f.msg}")
        nt = nt or bool(seen)
    return Info(nontrivial=nt, labels=[case["rule"], case["mode"], f"n={n}"])


def check_veto_block(case):
    """Write handlers that decline a value (`event.prevent_default = True`, the documented "confirm later" pattern) on one
    switch: every client write naming 1..n distinct switches in every order with every value combination, from this state.
    case: {"rule", "n", "on": [indices], "only": [op, veto index, when]?}"""
    from indi.device import events

    rule, n, on = case["rule"], case["n"], case["on"]
    n_eval = n_nt = 0
    combos = []
    for op in ops_for(n, n):
        if op[0] != "client" or op[2]:
            continue
        for veto in range(n):
            for when in ("always", "Off", "On"):
                combos.append([op, veto, when])
    if case.get("only"):
        combos = [case["only"]]
    for op, veto, when in combos:
        rig = Rig(rule, n, on)
        before = rig.state()

        def cb(event, when=when):
            if when == "always" or event.new_value == when:
                event.prevent_default = True

        getattr(rig.vec, f"e{veto}")._definition.attach_event_handler(events.Write, cb)
        rig.published.clear()
        where = f"{rule} n={n} before={before} op={op} the Write handler of S{veto} declines {when}"
        try:
            try:
                rig.apply(op)
            except Exception as e:  # noqa
                raise Failure(f"raises:{op[0]}:{type(e).__name__}:veto", f"{where}: {type(e).__name__}: {e}")
            after = rig.state()
            check_rule_state(rule, sum(before), after, "state-with-declining-write-handler")
            k = sum(before)
            for m in rig.published:
                if m.__class__.tag_name() == "setSwitchVector":
                    vals = {c.name: c.value for c in m.children}
                    s_ = tuple(vals.get(f"S{i}") == "On" for i in range(n))
                    check_rule_state(rule, min(k, 1) if rule == "OneOfMany" else k, s_, "published-with-declining-write-handler")
                    k = sum(s_)
        except Failure as f:
            f2 = Failure(f.sig, f"{where} after={rig.state()}: {f.msg}")
            f2.min_case = {**case, "only": [op, veto, when]}
            f2.min_sub = "veto"
            raise f2
        n_eval += 1
        n_nt += len(op[1]) >= 2
    return Info(n_eval=n_eval, n_nontrivial=n_nt, label_counts={rule: n_eval})


def veto_blocks(tier):
    for rule in gen.RULES:
        for n in range(2, 4 if tier == "quick" else 5):
            for bits in allowed_states(rule, n):
                yield {"rule": rule, "n": n, "on": [i for i, b in enumerate(bits) if b]}


idx = st.integers(0, 7)
op_st = st.one_of(
    st.tuples(st.just("client"), st.lists(st.tuples(idx, st.booleans()).map(list), min_size=1, max_size=4), st.booleans()).map(list),
    st.tuples(st.just("value"), idx, st.booleans()).map(list),
    st.tuples(st.just("bool"), idx, st.booleans()).map(list),
    st.tuples(st.just("sel"), idx).map(list),
    st.tuples(st.just("sels"), st.lists(idx, max_size=4)).map(list),
)
history = st.fixed_dictionaries({"rule": st.sampled_from(gen.RULES), "n": st.integers(1, 8), "on": st.lists(idx, max_size=3), "ops": st.lists(op_st, min_size=1, max_size=30)})

hide_op = st.tuples(st.just("hide"), idx, st.booleans()).map(list)
hidden_history = st.fixed_dictionaries({"rule": st.sampled_from(gen.RULES), "n": st.integers(2, 5), "on": st.lists(idx, max_size=3),
                                        "ops": st.lists(op_st | hide_op, min_size=2, max_size=25)})

handler_history = st.fixed_dictionaries({"rule": st.sampled_from(gen.RULES), "n": st.integers(2, 5), "on": st.lists(idx, max_size=3), "ops": st.lists(op_st, min_size=1, max_size=20),
                                         "mode": st.sampled_from(["publish", "fallback", "observe", "read-raises", "read-raises"]), "fallback": idx, "fail_at": st.integers(0, 6)})

SUBCHECKS = {"graph": check_graph_block, "history": check_history, "hidden": check_hidden, "handlers": check_with_handlers, "veto": check_veto_block}


def graph_blocks(tier):
    nmax, multi = (5, 2) if tier == "quick" else (6, 3)
    for rule in gen.RULES:
        for n in range(1, nmax + 1):
            for bits in allowed_states(rule, n):
                yield {"rule": rule, "n": n, "on": [i for i, b in enumerate(bits) if b], "multi": multi}


def run(ctx):
    cnt = ctx.each("graph", graph_blocks(ctx.tier), check_graph_block, stop_after=5, timeout=150)
    ctx.exhaustive["graph"] = {"complete": True, "n_states": cnt, "bound": "3 rules x n<=5, pairs (quick) / n<=6, triples (thorough); every (state, op) transition"}
    ctx.hyp("history", history, check_history, ctx.scale(300, 5000))
    ctx.hyp("hidden", hidden_history, check_hidden, ctx.scale(400, 5000))
    ctx.hyp("handlers", handler_history, check_with_handlers, ctx.scale(500, 6000))
    cnt = ctx.each("veto", veto_blocks(ctx.tier), check_veto_block, stop_after=3, timeout=150)
    ctx.exhaustive["veto"] = {"complete": True, "n_states": cnt, "bound": "3 rules x n in 2..3 (quick) / 2..4 (thorough) x every allowed state x every client write naming 1..n distinct switches (orders x values) x declining switch x {always, Off, On}"}
