"""C03 - Serialize-then-parse is the identity on protocol messages."""
from __future__ import annotations

import copy
import itertools

from hypothesis import strategies as st

from harness import gen
from harness.core import Failure, Info


def _descendants(cls):
    out = []
    for sub in cls.__subclasses__():
        out.append(sub)
        out.extend(_descendants(sub))
    return list(dict.fromkeys(out))


def _define_presets():
    """The process also holds user-defined subclasses of the library's message and part classes (driver authors keep
    presets such as `class Gain(DefNumber)` with a fixed name). They are never instantiated here; merely having been
    defined must not change what a plain message parses to."""
    made = []
    try:
        from indi.message import base
    except Exception:  # noqa: BLE001
        return made
    for root in (base.IndiMessagePart, base.IndiMessage):
        for cls in sorted(_descendants(root), key=lambda c: c.__name__):
            if not cls.__module__.startswith("indi."):
                continue
            for k in range(4):

                def __init__(self, _c=cls, **kw):
                    kw["name"] = "PRESET"
                    kw["device"] = "PRESET"
                    _c.__init__(self, **kw)

                made.append(type(f"Preset{k}{cls.__name__}", (cls,), {"__init__": __init__, "__module__": __name__}))
    return made


_PRESETS = _define_presets()

ID = "C03"
LEVEL = "exploration"
RULE = (
    "sub-check 'subsets': exhaustive sweep message kind x every subset of its optional attributes x 0/1/3 children x every "
    "subset of the children's optional attributes; 'roundtrip': Hypothesis msg_spec (all kinds, 0..8 children, text over "
    "XML-representable characters incl. markup, both quotes, BMP/astral, inner whitespace; optionally padded with surrounding "
    "whitespace to exercise the stated normalisation); 'foreign': the same specs rendered by a hand-written serializer "
    "(attribute order, quote style, XML declaration, indentation, self-closing vs explicit empty elements, character "
    "references, padded text). Oracle: view(from_string(to_string(m))) == expected view computed from the spec; second "
    "serialization byte-identical when all text is in normal form, else idempotent from the second serialization on; foreign "
    "spellings parse to the same view and re-serialize to the canonical bytes; editing a message after it was serialized changes "
    "the next serialization accordingly; a vector built without children and filled by append round-trips and leaves other "
    "child-less vectors of the family empty. The process holds four never-instantiated user subclasses of every library message and part class. Non-trivial: >= 1 optional attribute present "
    "and (>= 2 children or some attribute/text containing a markup, quote or non-ASCII character); distinct = canonical JSON."
)
SHARDS = {"quick": 4, "thorough": 16}
ASSUMPTIONS = [
    "text domain excludes CR and C0 controls (not XML-representable / normalised by XML itself)",
    "whitespace = str.strip()'s notion, which is what the library's parser applies",
]

_MARKUP = set("<>&\"'")


def _spicy(s):
    return s is not None and any((c in _MARKUP) or ord(c) > 0x7E for c in str(s))


def _info(spec, extra=()):
    req, opt, _, _ = gen.MESSAGES[spec["kind"]]
    has_opt = any(a in spec["attrs"] for a in opt) or any(
        a in c["attrs"] for c in spec["children"] for a in gen.PARTS[c["kind"]][1]
    )
    texts = list(spec["attrs"].values()) + [spec.get("text")]
    for c in spec["children"]:
        texts += list(c["attrs"].values()) + [c.get("text")]
    spicy = any(_spicy(t) for t in texts)
    n = len(spec["children"])
    labels = [spec["kind"], f"children={'0' if n == 0 else '1' if n == 1 else '2+'}"]
    if spicy:
        labels.append("markup-or-nonascii")
    return Info(nontrivial=has_opt and (n >= 2 or spicy), labels=labels + list(extra))


def _parse(data, what):
    from indi.message import IndiMessage

    try:
        return IndiMessage.from_string(data)
    except Exception as e:  # noqa
        raise Failure(f"parse-rejects:{what}", f"{type(e).__name__}: {e} on {data!r}")


def _kindsig(spec):
    return "message" if spec["kind"] == "message" else "any"


def check_roundtrip(case):
    spec = case["spec"]
    pads = case.get("pad") or []
    built_spec = spec
    normal = True
    if pads:
        # not in normal form: surrounding whitespace on text values; expected view strips it
        built_spec = copy.deepcopy(spec)
        ch = gen.Chooser(pads)
        for c in built_spec["children"]:
            if c.get("text") and gen.PARTS[c["kind"]][2] == "free":
                c["text"] = ["", " ", "\n", "\t "][ch.next(4)] + c["text"] + ["", " ", "\n  ", "  "][ch.next(4)]
                normal = normal and c["text"] == c["text"].strip()
    m = gen.build(built_spec, numeric=bool(case.get("numeric")))
    s1 = m.to_string()
    p1 = _parse(s1, _kindsig(spec))
    if type(p1) is not type(m):
        raise Failure("kind-differs", f"{type(m).__module__}.{type(m).__name__} -> {type(p1).__module__}.{type(p1).__name__} for {s1!r}")
    want = gen.expected_view(spec)
    got = gen.view(p1)
    if got != want:
        raise Failure(f"view-differs:{_kindsig(spec)}", f"sent {want}\n got {got}\n wire {s1!r}")
    s2 = p1.to_string()
    if normal:
        if s2 != s1:
            raise Failure("reserialize-differs", f"{s1!r} -> {s2!r}")
    else:
        s3 = _parse(s2, _kindsig(spec)).to_string()
        if s3 != s2:
            raise Failure("reserialize-not-idempotent", f"{s2!r} -> {s3!r}")
    labels_extra = []
    if normal and not case.get("numeric"):
        # the message object is edited after it has been serialized once (a free-text child gets another value, a free-text
        # attribute of the message too): what it serializes to afterwards is the edited message
        spec2 = copy.deepcopy(spec)
        edited = False
        for i, c in enumerate(spec2["children"]):
            if gen.PARTS[c["kind"]][2] == "free":
                c["text"] = (c.get("text") or "") + "edited"
                m.children[i].value = c["text"]
                edited = True
                break
        for a in ("message", "label", "group"):
            if a in spec2["attrs"]:
                spec2["attrs"][a] = spec2["attrs"][a] + "!"
                setattr(m, a, spec2["attrs"][a])
                edited = True
                break
        if edited:
            s_after = m.to_string()
            got2 = gen.view(_parse(s_after, _kindsig(spec2)))
            if got2 != gen.expected_view(spec2):
                raise Failure("serialization-after-edit-is-stale", f"edited message {gen.expected_view(spec2)}\n serializes to {s_after!r}")
            labels_extra.append("edited-after-first-serialization")
    child_kind = gen.MESSAGES[spec["kind"]][3]
    if normal and not case.get("numeric") and child_kind and not spec["children"]:
        # a vector built WITHOUT a children argument and filled afterwards (children.append): it serializes with what it
        # holds, and it shares nothing with the next message of its family that is parsed without children
        sample = {"free": "t", "number": "1", "switch": "On", "state": "Ok", "base64": "QUJD"}[gen.PARTS[child_kind][2]]
        pattrs = {"name": "appended"}
        if child_kind == "defNumber":
            pattrs.update({"format": "%f", "min": "0", "max": "0", "step": "0"})
        if child_kind == "oneBLOB":
            pattrs.update({"size": "3", "format": ".bin"})
        part_spec = {"kind": child_kind, "attrs": pattrs, "text": sample}
        m0 = type(m)(**dict(spec["attrs"]))
        if not hasattr(m0.children, "append"):
            raise Failure("children-not-appendable", f"{type(m0).__name__}().children is {type(m0.children).__name__}")
        m0.children.append(gen.build(part_spec))
        spec3 = copy.deepcopy(spec)
        spec3["children"] = [part_spec]
        got3 = gen.view(_parse(m0.to_string(), _kindsig(spec3)))
        if got3 != gen.expected_view(spec3):
            raise Failure("serialization-after-append-differs", f"expected {gen.expected_view(spec3)}, got {got3}")
        fresh = gen.view(_parse(s1, _kindsig(spec)))
        if fresh != want:
            raise Failure("state-shared-between-messages", f"after another {spec['kind']} was filled by children.append(), parsing {s1!r} gives {fresh}")
        labels_extra.append("filled-by-append")
    return _info(spec, (["padded"] if pads else []) + (["python-numbers"] if case.get("numeric") else []) + labels_extra)


def check_foreign(case):
    spec = case["spec"]
    m = gen.build(spec)
    canonical = m.to_string()
    text = gen.render_foreign(spec, case["choices"], ascii_only=not case.get("latin1"))
    data = text if case.get("as_str", True) or case.get("latin1") else text.encode("ascii")
    p = _parse(data, _kindsig(spec))
    if type(p) is not type(m):
        raise Failure("foreign-kind-differs", f"{type(m).__module__}.{type(m).__name__} -> {type(p).__module__}.{type(p).__name__} for {text!r}")
    want = gen.expected_view(spec)
    got = gen.view(p)
    if got != want:
        raise Failure(f"foreign-view-differs:{_kindsig(spec)}", f"spelling {text!r}\n want {want}\n got {got}")
    s = p.to_string()
    if s != canonical:
        raise Failure("foreign-reserialize-differs", f"spelling {text!r}\n canonical {canonical!r}\n got {s!r}")
    lab = []
    if text.startswith("<?xml"):
        lab.append("declaration")
    if "'" in text.split(">")[0]:
        lab.append("single-quoted")
    if "&#" in text:
        lab.append("charref")
    return _info(spec, lab)


_REP = {
    "device": "dev", "name": "nm", "version": "1.7", "uid": "u1", "state": "Busy", "perm": "rw", "rule": "AtMostOne",
    "label": 'L "q" <&>', "group": "g é", "timestamp": "2026-10-02T00:00:00", "message": "m\nn", "timeout": "1.5",
    "format": "%8.3m", "min": "0", "max": "10", "step": "1", "size": "3",
}
_REPTEXT = {"free": "t <x>", "number": "-1:30", "switch": "On", "state": "Alert", "base64": "QUJD"}


def numeric_zero_cases():
    """Number-carrying messages built with Python numbers, including every zero (0, 0.0, -0.0 as text '0', '0.0')."""
    for pre, part in (("def", "defNumber"), ("set", "oneNumber"), ("new", "oneNumber")):
        for text in ("0", "0.0", "5", "-1.5", "10", "-3"):
            attrs = {"device": "dev", "name": "nm"}
            if pre != "new":
                attrs["state"] = "Ok"
            if pre == "def":
                attrs["perm"] = "rw"
                attrs["timeout"] = "0"
            pa = {"name": "e"}
            if part == "defNumber":
                pa.update({"format": "%f", "min": "0", "max": "0", "step": "0"})
            yield {"spec": {"kind": f"{pre}NumberVector", "attrs": attrs, "text": None, "children": [{"kind": part, "attrs": pa, "text": text}]}, "numeric": True}
    yield {"spec": {"kind": "setBLOBVector", "attrs": {"device": "d", "name": "n", "state": "Ok", "timeout": "0"}, "text": None,
                    "children": [{"kind": "oneBLOB", "attrs": {"name": "b", "size": "0", "format": ""}, "text": None}]}, "numeric": True}


def subsets_cases():
    for kind in sorted(gen.MESSAGES):
        req, opt, trule, child = gen.MESSAGES[kind]
        for r in range(len(opt) + 1):
            for sub in itertools.combinations(opt, r):
                attrs = {a: _REP[a] for a in list(req) + list(sub)}
                text = "Also" if trule == "blobenable" else "Busy" if trule == "state" else None
                if not child:
                    yield {"spec": {"kind": kind, "attrs": attrs, "text": text, "children": []}}
                    continue
                preq, popt, prule = gen.PARTS[child]
                part_variants = []
                for pr in range(len(popt) + 1):
                    for psub in itertools.combinations(popt, pr):
                        for t in (_REPTEXT[prule], None) if prule in ("free", "number", "base64") else (_REPTEXT[prule],):
                            pa = {a: _REP[a] for a in list(preq) + list(psub)}
                            part_variants.append({"kind": child, "attrs": pa, "text": t})
                yield {"spec": {"kind": kind, "attrs": attrs, "text": text, "children": []}}
                for pv in part_variants:
                    yield {"spec": {"kind": kind, "attrs": attrs, "text": text, "children": [pv]}}
                three = [dict(copy.deepcopy(part_variants[i % len(part_variants)])) for i in range(3)]
                for i, c in enumerate(three):
                    c["attrs"]["name"] = f"e{i}"
                yield {"spec": {"kind": kind, "attrs": attrs, "text": text, "children": three}}


SUBCHECKS = {"numeric": check_roundtrip, "subsets": check_roundtrip, "roundtrip": check_roundtrip, "foreign": check_foreign}


def run(ctx):
    ctx.each("numeric", numeric_zero_cases(), check_roundtrip, stop_after=3)
    n = ctx.each("subsets", subsets_cases(), check_roundtrip, stop_after=3)
    ctx.exhaustive["subsets"] = {"n_cases": n, "complete": True, "bound": "kind x optional-attribute subsets x {0,1,3} children x part optional subsets x text present/absent"}
    rt = st.fixed_dictionaries(
        {"spec": gen.msg_spec(max_children=8), "pad": st.one_of(st.just([]), st.lists(st.integers(0, 3), min_size=1, max_size=6)), "numeric": st.booleans()}
    )
    ctx.hyp("roundtrip", rt, check_roundtrip, ctx.scale(700, 15000))
    fo = st.fixed_dictionaries(
        {"spec": gen.msg_spec(max_children=5), "choices": gen.choices, "as_str": st.booleans()}
    )
    ctx.hyp("foreign", fo, check_foreign, ctx.scale(700, 15000))
    fo_l1 = st.fixed_dictionaries(
        {"spec": gen.msg_spec(max_children=3, max_cp=0xFF), "choices": gen.choices, "latin1": st.just(True)}
    )
    ctx.hyp("foreign", fo_l1, check_foreign, ctx.scale(150, 3000))
