"""C11 - Garbage on the wire cannot hang, crash or bloat the receiver, and is skipped."""
from __future__ import annotations

from hypothesis import strategies as st

from harness import buf, gen
from harness.core import Failure, Info

ID = "C11"
LEVEL = "exploration"
SHARDS = {"quick": 8, "thorough": 16}
RULE = (
    "texts over Latin-1 assembled from a fragment alphabet (known/unknown tag openers and closers, attributes, quotes, < > &, "
    "entity fragments, comments, CDATA, declarations, DOCTYPE, NUL, random characters), valid messages, valid messages truncated "
    "at a drawn position ('truncate-all': at EVERY position of a corpus, exhaustively) and corrupt elements, interleaved; random "
    "fragmentation or char-by-char; threshold in {16,128,2048,None}. Sub-checks: 'safety' (terminates, raises nothing, only "
    "registered messages delivered, #deliveries <= #known openers fed, retained <= threshold after every process); 'transparent' "
    "(metamorphic: junk without a known-tag opener between valid messages does not change what is delivered nor when); 'recovery' "
    "(threshold enabled: after a truncated/corrupt element the following valid messages are all delivered, once, in order, once "
    "threshold+1 characters of '<'-free filler have arrived); 'handlers' (the same retention bound and recovery observed through the client, server and TTY read loops, which call "
    "Buffer themselves: a truncated element, a valid message, then '>'-free junk in chunks); 'fuzz' = atheris campaign with the same oracles (thorough). "
    "Non-trivial: input has >= 1 '<', >= 1 valid message and >= 2 pieces; distinct = canonical JSON of the case."
)
ASSUMPTIONS = [
    "termination is checked as bounded termination (deterministic step bound + 60 s SIGALRM backstop for operations that take milliseconds to about a second)",
    "recovery is asserted only with an enabled threshold (with None no amount of data is 'enough' by that mode's definition)",
    "valid messages in 'transparent'/'recovery' are no longer than the threshold (C02's stated limit)",
]

FRAGMENTS = [
    "<", ">", "&", '"', "'", "/", "=", " ", "\n", "\x00", "\x7f", "\xa0", "\xe9", "\xff", "</", "/>", "<?", "?>", "<!", "<!--", "-->",
    "<![CDATA[", "]]>", "<!DOCTYPE indi>", '<?xml version="1.0"?>', "<?xml", "&amp;", "&lt;", "&bogus;", "&#0;", "&#xZZ;",
    "<foo>", "</foo>", "<foo ", "<foo/>", "<bar a='1'>", "<defText name='a'>x</defText>", "<oneNumber", "</setTextVector>", "</message>",
    "<getProperties", "<message", "<setTextVector", "<oneLight", "<enableBLOB", "<newSwitchVector", "<defBLOBVector", "<delProperty",
    ' version="1.7"', ' device="d"', " name='n'", ' state="Ok"', "<getProp", "<mess", "<set", "abc", "0123456789",
]


def junk_text(max_frags=8):
    frag = st.sampled_from(FRAGMENTS) | st.text(st.characters(min_codepoint=0, max_codepoint=255), min_size=1, max_size=6)
    return st.lists(frag, min_size=1, max_size=max_frags).map("".join)


def harmless(text):
    """Remove every known-tag opener from junk (construction, not rejection)."""
    changed = True
    while changed:
        changed = False
        for tag in buf.KNOWN_TAGS:
            lookup = "<" + tag
            if lookup in text:
                text = text.replace(lookup, tag)
                changed = True
    return text


CORRUPT = [
    '<setTextVector device="a"/>', '<setTextVector device="a"></setTextVector>', "<getProperties/>", "<enableBLOB device='d'>Sometimes</enableBLOB>",
    '<message></pingReply>', '<message message="&bogus;"/>', '<message device="a" device="b"/>', "<message \x00/>",
    '<newSwitchVector device="d" name="n"><oneSwitch name="a">Maybe</oneSwitch></newSwitchVector>',
    '<newNumberVector device="d" name="n"><oneText name="a">1</oneText></newNumberVector>',
    '<defTextVector device="d" name="n" state="Bad" perm="rw"><defText name="a"/></defTextVector>',
    '<setLightVector device="d" name="n" state="Ok"><oneLight name="a">Ok</oneLight><oneLight name="b">Ok</oneLight>',
    '<defNumberVector device="d" name="n" state="Ok" perm="rw"><defNumber name="x">1</defNumber></defNumberVector>',
    "<message><message/></message>", "<message>text<", '<getProperties version="1.7"', "<getProperties version='1.7'/", '<oneLight name="a">Purple</oneLight>',
]


# valid messages short enough for small thresholds, by construction
def short_specs(limit):
    pool = [
        {"kind": "message", "attrs": {}, "text": None, "children": []},
        {"kind": "message", "attrs": {"device": "d"}, "text": None, "children": []},
        {"kind": "pingReply", "attrs": {"uid": "1"}, "text": None, "children": []},
        {"kind": "getProperties", "attrs": {"version": "1.7"}, "text": None, "children": []},
        {"kind": "enableBLOB", "attrs": {"device": "d"}, "text": "Also", "children": []},
        {"kind": "oneLight", "attrs": {"name": "l"}, "text": "Ok", "children": []},
        {"kind": "delProperty", "attrs": {"device": "d", "name": "n"}, "text": None, "children": []},
        {"kind": "newSwitchVector", "attrs": {"device": "d", "name": "s"}, "text": None, "children": [{"kind": "oneSwitch", "attrs": {"name": "a"}, "text": "On"}]},
        {"kind": "setTextVector", "attrs": {"device": "d", "name": "t", "state": "Ok"}, "text": None, "children": [{"kind": "oneText", "attrs": {"name": "a"}, "text": "x>y"}, {"kind": "oneText", "attrs": {"name": "b"}, "text": None}]},
        {"kind": "setLightVector", "attrs": {"device": "d", "name": "l", "state": "Ok"}, "text": None, "children": [{"kind": "oneLight", "attrs": {"name": "a"}, "text": "Busy"}]},
    ]
    out = []
    for s in pool:
        if len(gen.render_foreign(s, [0])) <= limit:
            out.append(s)
    return out


def _valid_item(limit):
    if limit is None or limit >= 2048:
        return buf.msg_item(max_children=2) | st.sampled_from(short_specs(4096)).map(lambda s: {"t": "msg", "spec": s, "choices": [0], "gap": ""})
    return st.sampled_from(short_specs(limit)).map(lambda s: {"t": "msg", "spec": s, "choices": [0], "gap": ""})


REPEATABLE = ["<", ">", "<>", "><", "&", "<a", "</a>", "<a>", "<!--", "<message", "<message ", "<oneLight name='a'>", "'", '"', "<message a='", "\x00", " ", "<?", "]]>"]


def long_junk():
    """One fragment repeated until it exceeds the small / default thresholds."""
    return st.builds(lambda f, n: (f * n)[:n], st.sampled_from(REPEATABLE), st.sampled_from([17, 40, 129, 300, 2049, 2500]))


def junk_item():
    return st.fixed_dictionaries({"t": st.just("junk"), "text": junk_text() | junk_text() | st.sampled_from(CORRUPT) | long_junk()})


def trunc_item():
    return st.fixed_dictionaries({"t": st.just("trunc"), "spec": gen.msg_spec(max_children=2, max_cp=0xFF), "choices": gen.choices, "at": st.integers(0, 400)})


cuts_st = st.one_of(st.just("charwise"), st.lists(st.integers(0, 5000), min_size=0, max_size=10))
THRESHOLDS = [16, 128, 2048, None]


def _pieces(text, cuts):
    if cuts == "charwise":
        return list(text)
    return buf.pieces_from_cuts(text, [c % max(1, len(text)) for c in cuts])


def _count_openers(text):
    return sum(text.count("<" + t) for t in buf.KNOWN_TAGS)


# --------------------------------------------------------------------------------------------


def feed_safely(text, cuts, threshold):
    """Oracles (1)-(4); returns the Feed."""
    f = buf.Feed(threshold)
    for p in _pieces(text, cuts):
        f.feed(p)  # raises Failure on exception / non-message callback
        if threshold is not None and f.buf.data_len > threshold:
            raise Failure("retains-more-than-threshold", f"{f.buf.data_len} > {threshold} after {len(f.fed)} chars")
    if len(f.delivered) > _count_openers(f.fed):
        raise Failure("delivered-more-than-openers", f"{len(f.delivered)} deliveries, {_count_openers(f.fed)} known openers fed")
    for v in f.delivered:
        if v[0] not in gen.MESSAGES:
            raise Failure("delivered-unregistered-tag", repr(v))
    return f


def check_safety(case):
    """case: {"items": [...], "cuts": ..., "threshold": ...}"""
    text = "".join(buf.render_item(it)[0] for it in case["items"])
    text = text.encode("latin1", "replace").decode("latin1")
    f = feed_safely(text, case["cuts"], case["threshold"])
    kinds = {it.get("t", "msg") for it in case["items"]}
    labs = [f"T={case['threshold']}"] + sorted(f"has-{k}" for k in kinds)
    for name, needle in (("comment", "<!--"), ("cdata", "<![CDATA["), ("nul", "\x00"), ("declaration", "<?xml"), ("doctype", "<!DOCTYPE")):
        if needle in text:
            labs.append(name)
    nt = "<" in text and "msg" in kinds and f.calls >= 2
    return Info(nontrivial=nt, labels=labs)


def check_raw(case):
    """case: {"text": latin-1 str, "cuts": ..., "threshold": ...} - used by the fuzzer and replays."""
    f = feed_safely(case["text"], case["cuts"], case["threshold"])
    return Info(nontrivial="<" in case["text"] and f.calls >= 2 and bool(f.delivered), labels=[f"T={case['threshold']}"])


def check_transparent(case):
    """case: {"items": [msg | junk ...], "cuts": ..., "threshold": ...}; junk is made harmless."""
    thr = case["threshold"]
    text = ""
    ends, views = [], []
    run = ""
    njunk = 0
    for it in case["items"]:
        if it["t"] == "junk":
            run += it["text"]
            continue
        if run:
            text += harmless(run.encode("latin1", "replace").decode("latin1"))
            run = ""
            njunk += 1
        t, end, v = buf.render_item(it)
        ends.append(len(text) + end)
        views.append(v)
        text += t
    if run:
        text += harmless(run.encode("latin1", "replace").decode("latin1"))
        njunk += 1
    f = buf.Feed(thr)
    for p in _pieces(text, case["cuts"]):
        f.feed(p)
        fed = len(f.fed)
        want = views[: sum(1 for e in ends if e <= fed)]
        if f.delivered != want:
            kind = "late-or-lost" if len(f.delivered) < len(want) else "extra-or-differs"
            raise Failure(
                f"junk-not-transparent:{kind}",
                f"after {fed}/{len(text)} chars (T={thr}): delivered {len(f.delivered)}, expected {len(want)}; stream {text[:300]!r}",
            )
        if thr is not None and f.buf.data_len > thr:
            raise Failure("retains-more-than-threshold", f"{f.buf.data_len} > {thr}")
    return Info(nontrivial=njunk >= 1 and len(views) >= 1 and f.calls >= 2 and "<" in text, labels=[f"T={thr}", f"junk-runs={min(njunk, 3)}"])


def check_recovery(case):
    """case: {"bad": junk|trunc item, "valid": [msg items], "filler": str ('<'-free), "cuts":..., "threshold": int}"""
    thr = case["threshold"]
    bad = buf.render_item(case["bad"])[0].encode("latin1", "replace").decode("latin1")
    text = bad
    views = []
    for it in case["valid"]:
        t, end, v = buf.render_item(it)
        text += t
        views.append(v)
    filler = case["filler"].replace("<", " ")
    filler = (filler * (thr // max(1, len(filler)) + 2))[: thr + 1]
    text += filler
    f = feed_safely(text, case["cuts"], thr)
    k = len(views)
    if f.delivered[len(f.delivered) - k:] != views:
        raise Failure(
            f"no-recovery:{case['bad']['t']}",
            f"T={thr}: after {bad[:120]!r} the {k} valid messages were not all delivered (delivered {len(f.delivered)}: {[v[0] for v in f.delivered]}); stream {text[:300]!r}",
        )
    return Info(nontrivial=k >= 1 and "<" in bad and f.calls >= 2, labels=[f"T={thr}", f"bad={case['bad']['t']}"])


def check_truncate_block(case):
    """Exhaustive: item `spec/choices` truncated at EVERY position, followed by `valid` and filler."""
    full = gen.render_foreign(case["spec"], case["choices"])
    n = nt = 0
    for at in range(0, len(full) - 1):
        sub = {"bad": {"t": "trunc", "spec": case["spec"], "choices": case["choices"], "at": at}, "valid": case["valid"], "filler": " ", "cuts": case["cuts"], "threshold": case["threshold"]}
        try:
            info = check_recovery(sub)
        except Failure as f:
            f.min_case = sub
            f.min_sub = "recovery"
            raise
        n += 1
        nt += bool(info.nontrivial)
    return Info(n_eval=n, n_nontrivial=nt, label_counts={f"T={case['threshold']}": n})


def check_handlers(case):
    """The same guarantees seen through the read loops that own a buffer (TCP client, TCP server, TTY server): after a
    truncated element and a valid message, junk without any '>' keeps arriving in chunks; once more than the threshold has
    arrived the valid message must have been delivered and no more than the threshold may be retained.
    case: {"which": "client"|"server"|"tty", "chunk": int, "junk": "x"|"mixed", "factor": int}"""
    from harness import net
    from harness.props.c02 import _RecRouter

    which = case["which"]
    loop = net.new_loop()
    try:
        delivered = []

        def sink(m):
            delivered.append(gen.view(m))

        if which == "client":
            from indi.transport.client.tcp import ConnectionHandler

            reader = net.FakeReader(loop)
            h = ConnectionHandler(reader, net.FakeWriter(loop), sink, for_blobs=False)
        elif which == "server":
            from indi.transport.server.tcp import ConnectionHandler

            reader = net.FakeReader(loop)
            h = ConnectionHandler(reader, net.FakeWriter(loop), _RecRouter(sink))
        else:
            from indi.transport.server.tty import ConnectionHandler

            reader = net.FakeStdin(loop)
            h = ConnectionHandler(_RecRouter(sink), reader, net.FakeStdout(loop))
        thr = h.buffer.max_buffer_size_before_frontal_cleanup
        task = loop.create_task(h.wait_for_messages())
        loop.drain()

        def feed(text):
            if which == "tty":
                reader.feed(text + "\n")
            else:
                reader.feed(text.encode("latin1"))
            loop.drain()
            if task.done():
                raise Failure(f"handlers:{which}:read-loop-ended", f"{task.exception()!r}")

        feed('<getProperties version="1.7"/>')
        feed('<setTextVector device="a" name="t" state="Ok"')  # truncated: its '>' never comes
        feed('<message device="x" message="after the truncated element"/>')
        unit = {"x": "x", "mixed": "junk <<< &&& \" ' = "}[case["junk"]]
        total = 0
        while total <= case["factor"] * thr:
            piece = (unit * (case["chunk"] // len(unit) + 1))[: case["chunk"]]
            feed(piece)
            total += len(piece)
            if h.buffer.data_len > thr + case["chunk"]:
                raise Failure(f"handlers:{which}:retention-exceeds-threshold", f"after {total} characters of '>'-free junk in chunks of {case['chunk']}: buffer holds {h.buffer.data_len}, threshold {thr}")
        tags = [v[0] for v in delivered]
        if tags.count("message") != 1 or tags[0] != "getProperties":
            raise Failure(f"handlers:{which}:valid-message-not-recovered", f"after {total} characters of junk behind it (threshold {thr}): delivered {tags}")
        return Info(nontrivial=True, labels=[which, f"chunk={case['chunk']}", case["junk"]])
    finally:
        loop.shutdown()


SUBCHECKS = {
    "handlers": check_handlers,
    "safety": check_safety, "transparent": check_transparent, "recovery": check_recovery,
    "truncate-all": check_truncate_block, "fuzz": check_raw, "raw": check_raw,
}


def _cuts_for(items):
    """Char-by-char feeding costs one process() call per character, each of which re-parses the buffer at every '>':
    cubic in the junk length. It terminates, but not within a budget that separates it from a hang, so long junk is
    fed in a few pieces only (bounded termination is what 'terminates' is checked as)."""
    if any(it.get("t") == "junk" and len(it.get("text", "")) > 200 for it in items):
        return st.lists(st.integers(0, 5000), min_size=0, max_size=10)
    return cuts_st


@st.composite
def safety_case(draw):
    thr = draw(st.sampled_from(THRESHOLDS))
    items = draw(st.lists(st.one_of(junk_item(), junk_item(), trunc_item(), _valid_item(thr)), min_size=1, max_size=8))
    return {"items": items, "cuts": draw(_cuts_for(items)), "threshold": thr}


@st.composite
def transparent_case(draw):
    thr = draw(st.sampled_from(THRESHOLDS))
    items = draw(st.lists(st.one_of(junk_item(), _valid_item(thr)), min_size=2, max_size=8))
    return {"items": items, "cuts": draw(_cuts_for(items)), "threshold": thr}


@st.composite
def recovery_case(draw):
    thr = draw(st.sampled_from([16, 128, 2048]))
    bad = draw(st.one_of(trunc_item(), st.sampled_from(CORRUPT).map(lambda t: {"t": "junk", "text": t}), junk_item()))
    valid = draw(st.lists(_valid_item(thr), min_size=1, max_size=4))
    filler = draw(st.sampled_from([" ", "\n", "x", ">", "abc ", "\x00", "&;"]))
    # char-by-char feeding of 2 k filler characters costs 2 k process calls over a 2 k buffer: keep it for the small thresholds
    long_bad = bad.get("t") == "junk" and len(bad.get("text", "")) > 200
    cuts = draw(cuts_st if (thr < 2048 and not long_bad) else st.lists(st.integers(0, 5000), min_size=0, max_size=10))
    return {"bad": bad, "valid": valid, "filler": filler, "cuts": cuts, "threshold": thr}


def truncate_blocks():
    from harness.props import c02

    short, medium = c02.corpus()
    seen = set()
    for stream in short + medium:
        for it in stream:
            key = gen.render_foreign(it["spec"], it.get("choices") or [0])
            if key in seen:
                continue
            seen.add(key)
            for thr in (16, 128, 2048):
                valid = [{"t": "msg", "spec": s, "choices": [0], "gap": ""} for s in short_specs(thr)[:2]]
                for cuts in ("charwise", [], [7, 40, 90, 200]):
                    if thr == 2048 and cuts == "charwise":
                        continue  # 2 k single-character process calls per position: covered by the random tier
                    yield {"spec": it["spec"], "choices": it.get("choices") or [0], "valid": valid, "cuts": cuts, "threshold": thr}


def run(ctx):
    ctx.hyp("safety", safety_case(), check_safety, ctx.scale(500, 15000), timeout=60)
    ctx.hyp("transparent", transparent_case(), check_transparent, ctx.scale(500, 15000), timeout=60)
    ctx.hyp("recovery", recovery_case(), check_recovery, ctx.scale(300, 8000), timeout=60)
    hcases = [{"which": w, "chunk": c, "junk": j, "factor": 3} for w in ("client", "server", "tty") for c in (100, 1024, 700) for j in ("x", "mixed")]
    ctx.each("handlers", hcases, check_handlers, stop_after=2, timeout=120)
    n = ctx.each("truncate-all", truncate_blocks(), check_truncate_block, stop_after=1, timeout=240)
    ctx.exhaustive["truncate-all"] = {"complete": True, "n_blocks": n, "bound": "every truncation position of the distinct corpus messages x T in {16,128,2048} x {char-by-char, one piece, 4 fixed cuts}"}
    if ctx.tier == "thorough":
        from harness import fuzz

        fuzz.run_atheris(ctx, "fuzz", "c11", runs=200_000 if ctx.shard < 4 else 0)
