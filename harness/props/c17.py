"""C17 - Waiting for an event returns the first match or times out, whatever the timing."""
from __future__ import annotations

import itertools

from hypothesis import strategies as st

from harness import gen, net
from harness.core import Failure, Info

ID = "C17"
LEVEL = "exploration"
SHARDS = {"quick": 8, "thorough": 16}
RULE = (
    "schedules on a deterministic virtual-clock event loop, time unit 1/4 s (exact binary floats): 'grid' enumerates exhaustively "
    "the arrival instants of <= 2 (quick) / <= 3 (thorough) events on every grid point of [0, 2.5 s], each event matching or not "
    "(another value, or an event on another element that the wait's filter excludes; two events at one instant = one read chunk), "
    "x timeout in {none} + grid (exact ties with an arrival skipped) x polling {off, (delay, interval) on the grid} x condition "
    "{expect, initial, check, check that raises on events it is not meant for} x event kind {value, state, definition}; the watched names plain or with brackets / blanks / `*` / `?` (ordinary characters in names); arrivals may carry None; 'concurrent' runs two waits with different conditions on one client (the getProperties seen must be the multiset union of "
    "every polling wait's own schedule); "
    "'fine' draws finer grids and longer bursts with Hypothesis. Oracle (analytic): with the first matching event object in a "
    "probe's log at tm - the wait returns THAT object at loop time tm if timeout is none or tm < timeout, else raises at loop time "
    "== timeout; never both/neither; getProperties is sent exactly at delay + k*interval before completion (a tick tying with "
    "completion accepted either way) and never afterwards (clock advanced 10 intervals further); no callback stays registered. "
    "Non-trivial: a non-matching event precedes the match, or match and timeout are within one grid step, or polling is on, or "
    "two events share an instant. Grid cases are distinct by construction."
)
ASSUMPTIONS = ["exact ties between an arrival and the timeout instant are excluded, as the statement says"]

Q = 0.25
VALUES = ["m1", "m2", "n1", "n2", "", None]  # element x starts at "n0"; "" only matters for the expect-empty condition; None = the element arrives without content
STATEVALS = ["Ok", "Busy", "Alert", "Alert"]  # vector starts Idle


def harness_matches(cond, kind, new):
    """The harness' own reading of the three condition kinds."""
    if cond == "expect-empty":
        return new == ""
    if kind == "value":
        if cond == "expect":
            return new == "m1"
        if cond == "initial":
            return new != "n0"
        return new in ("m1", "m2")
    if cond == "expect":
        return new == "Ok"
    if cond == "initial":
        return new != "Idle"
    return new in ("Ok", "Busy")


# names are opaque: the watched device / property / element may be called `M [tty0]`, `P[1]`, `x[0]` (with siblings `P1`, `x0`)
NAMESETS = {
    0: {},
    1: {"A": "M [tty0]", "P": "P[1]", "Q": "P1", "x": "x[0]", "y": "x0"},
    2: {"A": "A*", "P": "P?", "Q": "PQ", "x": "*", "y": "xy"},
}
_NAMES = {}


def _n(s):
    return _NAMES.get(s, s)


def wait_kwargs(cond, kind):
    from indi.client import events

    kw = {"device": _n("A"), "vector": _n("P")}
    if kind == "definition":
        # only a custom check makes sense for an event that carries neither a value nor a state of its own
        kw["event_type"] = events.DefinitionUpdate
        if cond == "check-raises":
            def chk(e):
                if e.vector.state in ("Ok", "Busy"):
                    return True
                raise AttributeError("check not applicable to this event (generated)")

            kw["check"] = chk
        else:
            kw["check"] = lambda e: e.vector.state in ("Ok", "Busy")
        return kw
    if kind == "value":
        kw["element"] = _n("x")
        kw["event_type"] = events.ValueUpdate
        if cond == "expect":
            kw["expect"] = "m1"
        elif cond == "expect-empty":
            kw["expect"] = ""  # an in-process (snooping) client sees '' as such: no XML in between
        elif cond == "initial":
            kw["initial"] = "n0"
        elif cond == "check-raises":
            # a partial check, as applications write them: fine on the events it is meant for, raising on the others
            def chk(e):
                if e.new_value in ("m1", "m2"):
                    return True
                raise AttributeError("check not applicable to this event (generated)")

            kw["check"] = chk
        else:
            kw["check"] = lambda e: e.new_value in ("m1", "m2")
    else:
        kw["event_type"] = events.StateUpdate
        if cond == "expect":
            kw["expect"] = "Ok"
        elif cond == "initial":
            kw["initial"] = "Idle"
        elif cond == "check-raises":
            def chk(e):
                if e.new_state in ("Ok", "Busy"):
                    return True
                raise AttributeError("check not applicable to this event (generated)")

            kw["check"] = chk
        else:
            kw["check"] = lambda e: e.new_state in ("Ok", "Busy")
    return kw


def arrival_message(kind, target, vi):
    """A set message for arrival (target 0 = the watched element/vector, 1 = another one)."""
    from indi import message
    from indi.message import one_parts

    if kind == "value":
        name = _n("x") if target == 0 else _n("y")
        return message.SetTextVector(device=_n("A"), name=_n("P"), state="Idle", children=(one_parts.OneText(name=name, value=VALUES[vi % len(VALUES)]),))
    vec = _n("P") if target == 0 else _n("Q")
    if kind == "definition":
        # the property is defined again (a server does that in reply to every getProperties), with some state
        from indi.message import def_parts

        return message.DefTextVector(device=_n("A"), name=vec, state=STATEVALS[vi % 4], perm="rw", children=(
            def_parts.DefText(name=_n("x"), value="n0"), def_parts.DefText(name=_n("y"), value="n0")))
    return message.SetTextVector(device=_n("A"), name=vec, state=STATEVALS[vi % 4], children=())


def run_case(case):
    """case: {"kind": "value"|"state", "waits": [{"cond", "timeout": k|None, "poll": None|[delay_k, interval_k]}],
              "arrivals": [[t_k, target, value_index], ...], "unit": float}"""
    from indi import message
    from indi.client import events
    from indi.client.client import BaseClient
    from indi.message import def_parts

    unit = case.get("unit", Q)
    kind = case["kind"]
    _NAMES.clear()
    _NAMES.update(NAMESETS[case.get("names", 0)])
    loop = net.new_loop()
    try:
        sent = []

        class C(BaseClient):
            def send_message(self, msg):
                sent.append((loop.time(), msg))

        client = C()
        for vec in (_n("P"), _n("Q")):
            client.process_message(message.DefTextVector(device=_n("A"), name=vec, state="Idle", perm="rw", children=(
                def_parts.DefText(name=_n("x"), value="n0"), def_parts.DefText(name=_n("y"), value="n0"))))
        sent.clear()
        probe = []
        def_states = {}

        def _probe(e):
            if isinstance(e, events.DefinitionUpdate):
                def_states[id(e)] = e.vector.state
            probe.append((loop.time(), e))

        client.onevent(callback=_probe)
        baseline = len(client.callbacks)
        waits = []
        for w in case["waits"]:
            kw = wait_kwargs(w["cond"], kind)
            kw["timeout"] = None if w.get("timeout") is None else w["timeout"] * unit
            if w.get("poll"):
                kw.update(polling_enabled=True, polling_delay=w["poll"][0] * unit, polling_interval=w["poll"][1] * unit)
            else:
                kw["polling_enabled"] = False
            rec = {"spec": w, "done_at": None}
            task = loop.create_task(client.waitforevent(**kw))
            task.add_done_callback(lambda t, rec=rec: rec.__setitem__("done_at", loop.time()))
            rec["task"] = task
            waits.append(rec)
        poll_expect = []
        loop.drain()  # waits are registered; only now may events arrive
        probe.clear()
        by_time = {}
        for t, target, vi in case["arrivals"]:
            by_time.setdefault(t, []).append((target, vi))

        def deliver(batch):
            for target, vi in batch:
                client.process_message(arrival_message(kind, target, vi))

        for t, batch in by_time.items():
            loop.call_at(t * unit, deliver, batch)
        last = max([t for t, _, _ in case["arrivals"]] + [w.get("timeout") or 0 for w in case["waits"]] + [0])
        horizon = (last + 2) * unit
        loop.advance_to(horizon)
        max_interval = max([w["poll"][1] for w in case["waits"] if w.get("poll")] + [1])
        sent_at_horizon = len(sent)
        loop.advance_to(horizon + 10 * max_interval * unit)
        nt = False
        for rec in waits:
            w = rec["spec"]
            cond = w["cond"]
            timeout = None if w.get("timeout") is None else w["timeout"] * unit
            first = None
            nonmatch_before = False
            for t, e in probe:
                if kind == "definition":
                    if not isinstance(e, events.DefinitionUpdate) or e.vector.name != _n("P"):
                        if first is None:
                            nonmatch_before = True
                        continue
                    new = def_states.get(id(e))
                elif kind == "value":
                    if not isinstance(e, events.ValueUpdate) or e.element.name != _n("x") or e.vector.name != _n("P"):
                        if first is None:
                            nonmatch_before = True
                        continue
                    new = e.new_value
                else:
                    if not isinstance(e, events.StateUpdate) or e.vector.name != _n("P"):
                        if first is None:
                            nonmatch_before = True
                        continue
                    new = e.new_state
                if harness_matches(cond, kind, new):
                    first = (t, e)
                    break
                nonmatch_before = True
            task = rec["task"]
            ctx = f"{kind}/{cond} timeout={timeout} poll={w.get('poll')} arrivals={case['arrivals']} unit={unit}"
            burst = len({t for t, _, _ in case["arrivals"]}) < len(case["arrivals"])
            if first is not None and (timeout is None or first[0] < timeout):
                if not task.done():
                    raise Failure("wait-never-completes:match", f"{ctx}: first match at {first[0]} but the wait is still pending")
                if task.exception() is not None:
                    raise Failure("wait-raises-despite-match", f"{ctx}: first match at {first[0]} < timeout, got {task.exception()!r}")
                if task.result() is not first[1]:
                    got = task.result()
                    raise Failure(
                        f"wait-returns-other-event:{'burst' if burst else 'spread'}",
                        f"{ctx}: first matching event {getattr(first[1], 'new_value', None) or getattr(first[1], 'new_state', None)!r} at {first[0]}, returned "
                        f"{getattr(got, 'new_value', None) or getattr(got, 'new_state', None)!r}",
                    )
                if rec["done_at"] != first[0]:
                    raise Failure("wait-completes-late", f"{ctx}: match at {first[0]}, completed at {rec['done_at']}")
                t_done = first[0]
            elif timeout is not None:
                if not task.done():
                    raise Failure("wait-never-completes:timeout", f"{ctx}: neither result nor timeout by {loop.time()}")
                if task.exception() is None:
                    raise Failure("wait-returns-after-timeout", f"{ctx}: returned {task.result()!r}; first match {first and first[0]}")
                if rec["done_at"] != timeout:
                    raise Failure("timeout-at-wrong-instant", f"{ctx}: raised at {rec['done_at']}")
                t_done = timeout
            else:
                if task.done():
                    raise Failure("wait-completes-without-match", f"{ctx}: done with {task.exception() or task.result()!r}")
                t_done = None
            if w.get("poll"):
                delay, interval = w["poll"][0] * unit, w["poll"][1] * unit
                times = [t for t, m in sent if m.__class__.tag_name() == "getProperties"]
                end = t_done if t_done is not None else horizon + 10 * max_interval * unit
                want = []
                k = 0
                while delay + k * interval <= end + 1e-12:
                    want.append(delay + k * interval)
                    k += 1
                    if k > 10000:
                        break
                must = [t for t in want if t < end]
                may = [t for t in want if t == end]
                poll_expect.append((must, may, t_done, ctx))
                if len(case["waits"]) == 1:
                    if [t for t in times if t not in may] != must and times != must + may:
                        raise Failure("polling-ticks", f"{ctx}: getProperties at {times}, expected {must} (+ optional {may}); done at {t_done}")
                    if t_done is not None and any(t > t_done for t in times):
                        raise Failure("polling-after-completion", f"{ctx}: getProperties at {times} after completion at {t_done}")
            near = first is not None and timeout is not None and abs(first[0] - timeout) <= unit
            nt = nt or nonmatch_before or near or bool(w.get("poll")) or burst
        if len(case["waits"]) > 1 and poll_expect:
            # every polling wait re-requests on ITS schedule until IT completes: the requests seen are the multiset union
            from collections import Counter

            times = Counter(t for t, m in sent if m.__class__.tag_name() == "getProperties")
            must_all = Counter(t for must, _, _, _ in poll_expect for t in must)
            may_all = Counter(t for _, may, _, _ in poll_expect for t in may)
            missing = must_all - times
            extra = times - must_all - may_all
            if missing or extra:
                raise Failure(
                    f"polling-ticks:concurrent:{'missing' if missing else 'extra'}",
                    f"{[c for _, _, _, c in poll_expect]}: getProperties at {sorted(times.elements())}, expected {sorted(must_all.elements())} "
                    f"(+ optional {sorted(may_all.elements())})",
                )
        done_all = all(r["task"].done() for r in waits)
        if done_all and len(client.callbacks) != baseline:
            raise Failure("callback-left-registered", f"{len(client.callbacks)} callbacks registered after completion, baseline {baseline}")
        if done_all and len(sent) != sent_at_horizon and all((r["done_at"] or 0) <= horizon for r in waits):
            raise Failure("polling-after-completion", f"messages sent after the horizon: {[(t, m.__class__.tag_name()) for t, m in sent[sent_at_horizon:]]}")
        return nt
    finally:
        loop.shutdown()


def check_case(case):
    nt = run_case(case)
    labels = [case["kind"]] + [w["cond"] for w in case["waits"]]
    if any(w.get("poll") for w in case["waits"]):
        labels.append("polling")
    if any(w.get("timeout") is not None for w in case["waits"]):
        labels.append("timeout")
    return Info(nontrivial=nt, labels=labels)


def check_block(case):
    """case: {"kind","cond","arrival_times": [...], "n_points": int} - all timeout/poll/match patterns for these instants."""
    n = nt = 0
    times = case["arrival_times"]
    patterns = list(itertools.product([tuple(p) for p in case.get("patterns", [(0, 0), (0, 1), (0, 2), (1, 0)])], repeat=len(times)))  # (target, value index)
    timeouts = [None] + [k for k in range(1, case["n_points"] + 2)]
    polls = [None, [1, 1], [2, 3], [0, 2]]
    for pat in patterns:
        arrivals = [[t, p[0], p[1]] for t, p in zip(times, pat)]
        for to in timeouts:
            if to is not None and to in times:
                continue  # exact tie with an arrival: excluded by the statement
            for poll in polls:
                sub = {"kind": case["kind"], "waits": [{"cond": case["cond"], "timeout": to, "poll": poll}], "arrivals": arrivals, "names": case.get("names", 0)}
                try:
                    r = run_case(sub)
                except Failure as f:
                    f.min_case = sub
                    f.min_sub = "single"
                    raise
                n += 1
                nt += bool(r)
    return Info(n_eval=n, n_nontrivial=nt, label_counts={f"{case['kind']}-{case['cond']}": n})


SUBCHECKS = {"grid": check_block, "single": check_case, "concurrent": check_case, "fine": check_case}


def grid_blocks(tier):
    npts = 10
    maxev = 2 if tier == "quick" else 3
    for k in range(0, 3):
        for times in itertools.combinations_with_replacement(range(0, npts + 1, 2), k):
            yield {"kind": "value", "cond": "expect-empty", "arrival_times": list(times), "n_points": npts, "patterns": [(0, 4), (0, 0), (1, 4)]}
            # the watched element arrives without content (None): a departure from the initial value like any other
            yield {"kind": "value", "cond": "initial", "arrival_times": list(times), "n_points": npts, "patterns": [(0, 5), (0, 2), (1, 5)]}
    for kind in ("value", "state"):
        for cond in ("expect", "initial", "check"):
            for k in range(0, maxev + 1):
                for times in itertools.combinations_with_replacement(range(0, npts + 1), k):
                    yield {"kind": kind, "cond": cond, "arrival_times": list(times), "n_points": npts}
    for names in (1, 2):
        for kind in ("value", "state"):
            for cond in ("expect", "check"):
                for times in ([], [2], [1, 4]):
                    yield {"kind": kind, "cond": cond, "arrival_times": times, "n_points": npts, "names": names}


arrival_st = st.tuples(st.integers(0, 24), st.sampled_from([0, 0, 0, 1]), st.integers(0, 5)).map(list)
wait_st = st.fixed_dictionaries(
    {
        "cond": st.sampled_from(["expect", "initial", "check", "expect-empty", "check-raises"]),
        "timeout": st.none() | st.integers(1, 26),
        "poll": st.none() | st.tuples(st.integers(0, 6), st.integers(1, 7)).map(list),
    }
)


@st.composite
def free_case(draw, nwaits):
    arrivals = draw(st.lists(arrival_st, min_size=0, max_size=6))
    times = {a[0] for a in arrivals}
    waits = draw(st.lists(wait_st, min_size=nwaits, max_size=nwaits))
    for w in waits:
        while w["timeout"] is not None and w["timeout"] in times:
            w["timeout"] += 1  # ties with an arrival are excluded by the statement
    unit = draw(st.sampled_from([0.25, 0.125, 0.5, 1.0, 0.0625]))
    kind = draw(st.sampled_from(["value", "state", "value", "state", "definition"]))
    if any(w["cond"] == "expect-empty" for w in waits):
        kind = "value"  # there is no empty property state
    if kind == "definition":
        for w in waits:
            if w["cond"] not in ("check", "check-raises"):
                w["cond"] = "check"
    return {"kind": kind, "waits": waits, "arrivals": sorted(arrivals), "unit": unit, "names": draw(st.sampled_from([0, 0, 1, 2]))}


def run(ctx):
    cnt = ctx.each("grid", grid_blocks(ctx.tier), check_block, stop_after=4, timeout=300)
    ctx.exhaustive["grid"] = {"complete": True, "n_blocks": cnt, "bound": f"<= {2 if ctx.tier == 'quick' else 3} arrivals on 11 grid points x 4 match patterns each x timeout none/1..11 x 4 polling settings x 3 conditions x 2 event kinds"}
    ctx.hyp("concurrent", free_case(2), check_case, ctx.scale(150, 4000))
    ctx.hyp("fine", free_case(1), check_case, ctx.scale(150, 4000))
