"""C01 - Client view converges to the device's true property state."""
from __future__ import annotations

from hypothesis import strategies as st

from harness import drivers, gen, refclient, refnum, stack
from harness.core import Failure, Info, lib_exception_failure
from harness.props import c06

ID = "C01"
LEVEL = "exploration"
SHARDS = {"quick": 8, "thorough": 16}
RULE = (
    "generated deployments (1-3 generated drivers: 1-3 groups, all five vector kinds, three switch rules, printf and %w.fm number "
    "formats, initially enabled/disabled groups, vectors and elements, BLOB elements that may hold a payload from the start, "
    "inheritance depth <= 3; a getProperties for a device name may be routed before that driver is constructed) plus a fixed driver "
    "whose in-process SnoopingClient snoops device 0 from the start and further devices later in the history, a real network Client (control + BLOB connection) on fake pipes with independent generated "
    "fragmentation of all four byte streams, and histories of <= 25 ops: driver side assign / set_value / bool_value / state_ / "
    "vector.enabled / group.enabled / selected_value / re-assignment of the held value (republish), client side handshake and assign+submit, and settle markers (everything "
    "between two markers is in flight together). Oracle at every quiescence point, three-way: (1) expected = property set from the "
    "spec (enabled = vector flag and group flag) with current values read from the drivers' attributes; (2) reference mirror = "
    "harness/refclient.py fed with the elements an independent splitter finds in the raw bytes the server wrote on the control "
    "connection (checks perm/rule/timeout/format/min/max/step too); (3) the library clients' public view. (2) == (1) and (3) == (1) "
    "exactly, both directions (names, kinds, metadata, element sets, values; numbers within the format's resolution; BLOBs equal, "
    "or absent where INDI carries no payload: after a redefinition, and always for snoopers). Non-trivial: the history has >= 1 "
    "enable/disable toggle or client write, >= 2 ops in flight before some settle, and some stream is cut inside elements."
)
ASSUMPTIONS = [
    "messages are kept under the 2048-character framing threshold (C02 states that limit)",
    "within one settle round the control connection is pumped before the BLOB connection; cross-connection reordering is not explored",
    "element-level enabled flags are static (the library publishes nothing when they are toggled)",
    "a BLOB is compared only within its definition epoch: a (re)definition carries no payload, so after one the client's BLOB is absent",
    "the state of a BLOB property is not compared for observers whose policy excludes setBLOBVector (control stream, snoopers)",
    "nor for the network client when an update of a BLOB property was published while a (re)definition of it was still in flight: "
    "definition and update travel on different connections and their relative arrival order is not a matter of fragmentation",
]

SNOOPER_SPEC = {
    "name": "SNOOPER",
    "chain": [{"groups": [{"attr": "g", "name": "SNOOP", "enabled": True, "vectors": [
        {"attr": "t", "kind": "Text", "name": "INFO", "label": None, "state": "Idle", "perm": "ro", "timeout": 0, "enabled": True,
         "elements": [{"attr": "a", "name": "WHO", "label": None, "default": "snooper", "enabled": True}]}]}]}],
}


def et_to_spec(el):
    return {"kind": el.tag, "attrs": dict(el.attrib), "text": el.text, "children": [{"kind": c.tag, "attrs": dict(c.attrib), "text": c.text} for c in el]}


def check_wire(dep, raw_control: bytes):
    """(2) == (1): the reference interpreter over the raw control stream vs the expectation."""
    ref = refclient.RefClient()
    try:
        elements = gen.split_elements(raw_control.decode("latin1"))
    except Exception as e:  # noqa
        raise Failure("wire-not-well-formed", f"{type(e).__name__}: {e}")
    for el in elements:
        if el.tag == "message" or el.tag.startswith(("get", "ping")):
            continue
        ref.apply(et_to_spec(el))
    want = stack.expected_view(dep)
    got = {dn: props for dn, props in ref.devices.items() if props}
    if sorted(got) != sorted(want):
        raise Failure("wire-devices", f"the control stream defines devices {sorted(got)}, expected {sorted(want)}")
    for dn, wprops in want.items():
        if sorted(got[dn]) != sorted(wprops):
            missing = sorted(set(wprops) - set(got[dn]))
            raise Failure(f"wire-properties:{'missing' if missing else 'extra'}", f"{dn}: stream leaves {sorted(got[dn])}, expected {sorted(wprops)}")
        d = [i for i, s in enumerate(dep.specs) if s["name"] == dn][0]
        vspecs = {v["name"]: (g, v) for g, v in dep.vectors[d]}
        for vn, w in wprops.items():
            p = got[dn][vn]
            g, v = vspecs[vn]
            a = p["attrs"]
            # the state of a BLOB property travels in setBLOBVector, which the control connection (policy Never) never carries
            if p["kind"] != w["kind"] or (p["state"] != w["state"] and w["kind"] != "BLOB"):
                raise Failure("wire-metadata:kind-or-state", f"{dn}.{vn}: {p['kind']}/{p['state']} vs {w['kind']}/{w['state']}")
            if (a.get("label") or vn) != w["label"] or a.get("group") != w["group"]:
                raise Failure("wire-metadata:label-or-group", f"{dn}.{vn}: {a.get('label')!r}/{a.get('group')!r}")
            if v["kind"] != "Light":
                if a.get("perm") != v["perm"] or float(a.get("timeout", "nan")) != float(v["timeout"]):
                    raise Failure("wire-metadata:perm-or-timeout", f"{dn}.{vn}: {a.get('perm')!r}/{a.get('timeout')!r} vs {v['perm']!r}/{v['timeout']!r}")
            if v["kind"] == "Switch" and a.get("rule") != v["rule"]:
                raise Failure("wire-metadata:rule", f"{dn}.{vn}: {a.get('rule')!r} vs {v['rule']!r}")
            if sorted(p["elements"]) != sorted(w["elements"]):
                raise Failure("wire-elements", f"{dn}.{vn}: {sorted(p['elements'])} vs {sorted(w['elements'])}")
            for en, we in w["elements"].items():
                pe = p["elements"][en]
                if (pe["label"] or en) != we["label"]:
                    raise Failure("wire-element-label", f"{dn}.{vn}.{en}: {pe['label']!r} vs {we['label']!r}")
                if v["kind"] == "Number":
                    sp = we["spec"]
                    ea = pe["attrs"]
                    if ea.get("format") != sp["format"] or any(float(ea.get(f, "nan")) != float(sp.get(f) or 0) for f in ("min", "max", "step")):
                        raise Failure("wire-number-metadata", f"{dn}.{vn}.{en}: {ea} vs {sp}")
                if v["kind"] != "BLOB":
                    stack.compare_value(v["kind"], we["spec"], we["value"], pe["value"], f"wire {dn}.{vn}.{en}")


def check_converge(case):
    """case: {"devices": [...], "frags": {...}, "ops": [...]}"""
    specs = list(case["devices"]) + [SNOOPER_SPEC]
    st_ = None
    try:
        try:
            st_ = stack.Stack(specs, case.get("frags"), early=case.get("early", ()))
        except Failure:
            raise
        except Exception as exc:  # noqa
            raise lib_exception_failure(exc, "startup")
        dep, client = st_.dep, st_.client
        snooper_index = len(case["devices"])
        specs = dep.specs  # the deployment may have added instances of base classes as devices of their own
        snooped = specs[0]["name"]
        snoop = st_.in_loop(lambda: dep.drivers[snooper_index].snoop_device(snooped))
        heard_partially = []  # indices of devices a property / group of which was (re)enabled: every client overhears that definition
        snooped_all = [snooped]  # further devices are snooped later in the history (op "snoop")
        fresh = {}  # (d, vec, el) -> True when the BLOB was assigned within the current definition epoch, after a settle
        redef_pending = set()  # (d, vec) redefined since the last settle

        def blob_mode(dn, vn, en):
            d = [i for i, s in enumerate(specs) if s["name"] == dn][0]
            return "equal" if fresh.get((d, vn, en)) else "equal-or-absent"

        state_race = set()  # (d, vec) of BLOB vectors updated while a redefinition of them was still in flight: the update travels
        # on the BLOB connection, the definition on the control connection, and which one the client applies last is not
        # determined by the fragmentation of either stream

        def blob_state(dn, vn):
            d = [i for i, s in enumerate(specs) if s["name"] == dn][0]
            return (d, vn) not in state_race

        need_blob = {}  # (d, vec) -> offset in the BLOB connection's server output when the property was last (re)enabled

        def check_blob_republished():
            """After a property with a set BLOB becomes visible again through an enable toggle, the server must have
            written a setBLOBVector with the current payload on the BLOB connection since then (whatever the
            cross-connection arrival order does to the client's copy)."""
            import base64

            raw = bytes(st_.blob.link.b_writer.all)
            for (d, vn), off in list(need_blob.items()):
                g, v = [(g, v) for g, v in dep.vectors[d] if v["name"] == vn][0]
                if not dep.is_enabled(d, g, v):
                    continue
                inst = dep.instance(d, g, v)
                els = gen.split_elements(raw[off:].decode("latin1"))
                sets = [e for e in els if e.tag == "setBLOBVector" and e.get("device") == specs[d]["name"] and e.get("name") == vn]
                for e in v["elements"]:
                    if not e["enabled"]:
                        continue
                    val = getattr(inst, e["attr"])._value
                    if val is None or len(val.binary) == 0:
                        continue
                    ok = any(base64.b64decode((c.text or "")) == val.binary for s_ in sets for c in s_ if c.get("name") == e["name"])
                    if not ok:
                        raise Failure("blob-not-republished-after-enable", f"{specs[d]['name']}.{vn}.{e['name']}: {len(val.binary)} bytes held by the driver, no setBLOBVector with them on the BLOB connection since the property was enabled again")

        def verify(tag):
            try:
                check_blob_republished()
                stack.compare_views(dep, client, blob_mode, who="network-client", blob_state=blob_state)
                for sn in snooped_all:
                    stack.compare_views(dep, snoop, lambda *a: "equal-or-absent", who="snooping-client", only=sn, blob_state=False)
                check_wire(dep, bytes(st_.control.link.b_writer.all))
            except Failure as f:
                raise Failure(f.sig, f"at {tag}: {f.msg}")

        verify("startup")
        # devices the client knew (and had therefore sent its per-device enableBLOB for) at the last quiescence point:
        # a device first seen through the very definition that accompanies a BLOB cannot have BLOBs enabled yet
        known_devices = set(client.list_devices())
        in_flight = max_in_flight = 0
        toggles = writes = 0
        labels = set()
        for i, op in enumerate(case["ops"]):
            t = op["op"]
            if t == "settle":
                st_.settle()
                redef_pending.clear()
                verify(f"settle after op {i}")
                known_devices = set(client.list_devices())
                max_in_flight = max(max_in_flight, in_flight)
                in_flight = 0
                continue
            if t == "snoop":
                # the snooping driver starts following one more device - after it may have overheard parts of it
                # (preferably a device it is not following yet and has overheard a re-enabled property of)
                cands_ = [x for x in heard_partially if specs[x]["name"] not in snooped_all]
                if cands_:
                    op = {"op": "snoop", "d": cands_[op["d"] % len(cands_)]}
                dn_ = specs[op["d"] % len(specs)]["name"]
                if dn_ == "SNOOPER":
                    continue
                d_ = op["d"] % len(specs)
                # a driver that already follows the whole device may ask again for one property by name (snoop_device(dev, name)):
                # it keeps following the device
                named_ = None
                if op.get("v") is not None and dn_ in snooped_all and dep.vectors[d_]:
                    named_ = dep.vectors[d_][op["v"] % len(dep.vectors[d_])][1]["name"]
                    labels.add("snoop-one-property-of-a-followed-device")
                if named_ is not None:
                    st_.in_loop(lambda: dep.drivers[snooper_index].snoop_device(dn_, named_), settle=False)
                else:
                    st_.in_loop(lambda: dep.drivers[snooper_index].snoop_device(dn_), settle=False)
                if dn_ not in snooped_all:
                    snooped_all.append(dn_)
                # its getProperties is answered to every client: for the network client this is a re-definition of the device
                for g_, v_ in dep.vectors[d_]:
                    if named_ is not None and v_["name"] != named_:
                        continue
                    redef_pending.add((d_, v_["name"]))
                    state_race.discard((d_, v_["name"]))
                    need_blob.pop((d_, v_["name"]), None)
                    for e_ in v_["elements"]:
                        fresh[(d_, v_["name"], e_["name"])] = False
                labels.add("snoop-started-mid-history")
                in_flight += 1
                continue
            if t == "republish_blob":
                # "push what you hold" for one of the BLOB elements that currently hold a payload (if any)
                cands = [(d_, vi, ei) for d_ in range(len(specs)) for vi, (g_, v_) in enumerate(dep.vectors[d_]) if v_["kind"] == "BLOB"
                         for ei, e_ in enumerate(v_["elements"]) if getattr(dep.instance(d_, g_, v_), e_["attr"])._value is not None]
                if not cands:
                    continue
                d_, vi, ei = cands[op["k"] % len(cands)]
                op = {"op": "republish", "d": d_, "v": vi, "e": ei}
                t = "republish"
            in_flight += 1
            try:
                if t == "handshake":
                    st_.in_loop(lambda: client.handshake(), settle=False)
                    need_blob.clear()  # a definition elicited by getProperties carries no payload: nothing to republish
                    for d in range(len(specs)):
                        for g, v in dep.vectors[d]:
                            redef_pending.add((d, v["name"]))
                            state_race.discard((d, v["name"]))
                            for e in v["elements"]:
                                fresh[(d, v["name"], e["name"])] = False
                    labels.add("handshake")
                elif t == "cwrite":
                    d = op["d"] % len(case["devices"])
                    g, v = dep.vectors[d][op["v"] % len(dep.vectors[d])]
                    dn = specs[d]["name"]
                    if v["kind"] == "Light" or dn not in client or v["name"] not in client[dn]:
                        in_flight -= 1
                        continue
                    cvec = client[dn][v["name"]]
                    names = cvec.list_elements()
                    en = names[op["e"] % len(names)]
                    obj, _ = c06.submitted_value(v["kind"], op["val"])
                    if v["kind"] == "BLOB" and len(obj.binary) > 24:
                        obj.binary = obj.binary[:24]
                    cvec[en].value = obj
                    st_.in_loop(lambda: cvec.submit(), settle=False)
                    if v["kind"] == "BLOB":
                        fresh[(d, v["name"], en)] = (d, v["name"]) not in redef_pending
                        if (d, v["name"]) in redef_pending:
                            state_race.add((d, v["name"]))
                        else:
                            state_race.discard((d, v["name"]))
                    writes += 1
                    labels.add(f"client-write-{v['kind']}")
                else:
                    d, g, v = (None, None, None)
                    if t != "genable":
                        d, g, v = dep.pick(op)
                    blob_off = len(st_.blob.link.b_writer.all)
                    lab = st_.in_loop(lambda: dep.apply(op), settle=False)
                    labels.add(lab.split("-")[0])
                    if lab == "republish-BLOB":
                        labels.add("republish-of-a-held-BLOB")
                    if t in ("venable", "genable") and op["on"]:
                        dd = op["d"] % len(specs)
                        for gg, vv in dep.vectors[dd]:
                            if specs[dd]["name"] not in known_devices:
                                continue
                            if vv["kind"] == "BLOB" and (t == "genable" or (gg is g and vv is v)) and dep.is_enabled(dd, gg, vv):
                                if t == "venable" or gg["attr"] == list(drivers.effective_groups(specs[dd]).values())[op["g"] % len(drivers.effective_groups(specs[dd]))]["attr"]:
                                    need_blob[(dd, vv["name"])] = blob_off
                                    labels.add("blob-property-reenabled")
                    if t not in ("venable", "genable", "eenable") and v is not None and v["kind"] == "BLOB" and lab != "noop":
                        # state / value publication of a BLOB vector
                        if (d, v["name"]) in redef_pending:
                            state_race.add((d, v["name"]))
                        else:
                            state_race.discard((d, v["name"]))
                    if t in ("venable", "genable") and op["on"] and (op["d"] % len(specs)) not in heard_partially:
                        heard_partially.append(op["d"] % len(specs))
                    if t == "venable":
                        toggles += 1
                        state_race.discard((d, v["name"]))
                        redef_pending.add((d, v["name"]))
                        for e in v["elements"]:
                            fresh[(d, v["name"], e["name"])] = False
                    elif t == "genable":
                        toggles += 1
                        dd = op["d"] % len(specs)
                        groups_ = list(drivers.effective_groups(specs[dd]).values())
                        toggled_attr = groups_[op["g"] % len(groups_)]["attr"]
                        for gg, vv in dep.vectors[dd]:
                            redef_pending.add((dd, vv["name"]))  # (over-approximation: only the group's own vectors are re-defined)
                            if gg["attr"] == toggled_attr:
                                state_race.discard((dd, vv["name"]))  # a real re-definition carries the current state
                            for e in vv["elements"]:
                                fresh[(dd, vv["name"], e["name"])] = False
                    elif v["kind"] == "BLOB" and (t in ("assign", "set_value") or (t == "republish" and lab != "noop")):
                        e = v["elements"][op["e"] % len(v["elements"])]
                        fresh[(d, v["name"], e["name"])] = (d, v["name"]) not in redef_pending
            except Failure:
                raise
            except Exception as exc:  # noqa
                f = lib_exception_failure(exc, f"op:{t}")
                raise Failure(f.sig, f"op {i} {op}: {f.msg}")
        st_.settle()
        verify("end")
        max_in_flight = max(max_in_flight, in_flight)
        frs = case.get("frags") or {}
        cut = any(min(v) < 200 for v in frs.values()) if frs else False
        depth = max(len(s["chain"]) for s in case["devices"])
        labels |= {f"devices={len(case['devices'])}", f"depth={depth}"}
        return Info(nontrivial=(toggles + writes) >= 1 and max_in_flight >= 2 and cut, labels=sorted(labels))
    finally:
        if st_ is not None:
            st_.close()


frag = st.lists(st.sampled_from([1, 3, 10, 64, 300, 1024]), min_size=1, max_size=3)
frags_st = st.fixed_dictionaries({"c2s": frag, "s2c": frag, "b2s": frag, "s2b": frag})
cwrite_st = st.fixed_dictionaries({"op": st.just("cwrite"), "d": st.integers(0, 2), "v": st.integers(0, 8), "e": st.integers(0, 3), "val": c06.val_st})
op_st = st.one_of(
    drivers.driver_op(), drivers.driver_op(), drivers.driver_op(),
    cwrite_st,
    st.just({"op": "settle"}), st.just({"op": "settle"}),
    st.just({"op": "handshake"}),
    st.fixed_dictionaries({"op": st.just("republish_blob"), "k": st.integers(0, 7)}),
    st.fixed_dictionaries({"op": st.just("snoop"), "d": st.integers(0, 5), "v": st.none() | st.integers(0, 5)}),
)
# a property of some device is re-enabled (every client overhears its definition), later the snooping driver starts to
# follow that device
overhear_then_snoop = st.tuples(st.integers(1, 5), st.integers(0, 8), st.booleans()).map(
    lambda t: [{"op": "venable", "d": t[0], "v": t[1], "on": True}] + ([{"op": "settle"}] if t[2] else []) + [{"op": "snoop", "d": t[0]}]
)
case_st = st.fixed_dictionaries(
    {
        "devices": drivers.deployment(max_devices=3).filter(lambda specs: all(drivers.spec_size_ok(s) for s in specs)),
        "frags": frags_st,
        "ops": st.lists(op_st | overhear_then_snoop | drivers.driver_macro(), max_size=25).map(lambda xs: [o for x in xs for o in (x if isinstance(x, list) else [x])][:30]),
        "early": st.lists(st.integers(0, 2), max_size=2),
    }
)

SUBCHECKS = {"converge": check_converge}


def run(ctx):
    ctx.hyp("converge", case_st, check_converge, ctx.scale(120, 3000), timeout=120)
