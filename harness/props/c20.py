"""C20 - Message equality is structural.

Oracle: (a == b) <=> (expected_view(spec_a) == expected_view(spec_b)), both orders, plus
(a != b) consistent with it, for an independently rebuilt copy and for every single-point
perturbation of a generated message.
"""
from __future__ import annotations

import copy

from hypothesis import strategies as st

from harness import gen
from harness.core import Failure, Info

ID = "C20"
LEVEL = "exploration"
RULE = (
    "messages drawn from the full grammar (harness/gen.py msg_spec: all kinds, every subset of optional attributes, "
    "0..5 children, XML-representable text); for each message an independently rebuilt copy and EVERY single-point "
    "perturbation (each attribute changed/dropped/added, Python-float attributes that differ only beyond the sixth decimal, look-alike spellings (NFC/NFD, compatibility, case and blank twins) at the same place, text changed, child text empty instead of absent, one character in the "
    "middle of a 1200- / 9000-character child value changed, each child index changed/renamed/dropped/"
    "duplicated/swapped with its neighbour, kind swapped for a sibling kind with the same fields) is compared with "
    "== and != in both orders against equality of the expected structural views computed from the specs. A case (one "
    "message with all its perturbations) is non-trivial when it has >= 2 children (so that perturbations fall on a "
    "child that is not the last one and on the number of children); distinct = distinct canonical JSON of the spec."
)
ASSUMPTIONS = [
    "a child built with the empty string differs from the same child built without a value (compared as objects, not as wire text)",
    "unknown attributes are not 'added': the constructors discard them by design (**junk)",
]


def _other(value, vocab):
    return vocab[(vocab.index(value) + 1) % len(vocab)] if value in vocab else vocab[0]


def _change_attr(name, value):
    if name in gen.VOCAB_ATTRS:
        return _other(value, gen.VOCAB_ATTRS[name])
    return str(value) + "x"


def _change_text(kind, text):
    rule = gen.PARTS[kind][2] if kind in gen.PARTS else None
    if kind == "enableBLOB":
        return _other(text, gen.BLOBENABLE)
    if rule == "switch":
        return _other(text, gen.SWITCH)
    if rule == "state":
        return _other(text, gen.STATES)
    if rule == "number":
        return "7" if text != "7" else "8"
    if rule == "base64":
        return "QUJD" if text != "QUJD" else "QUJE"
    return (text or "") + "x"


def _sibling_kind(kind):
    """A different message kind accepting the same attributes (children re-tagged)."""
    if kind == "pingRequest":
        return "pingReply", None
    if kind == "pingReply":
        return "pingRequest", None
    for pre in ("def", "set", "new"):
        if kind.startswith(pre) and kind.endswith("Vector"):
            k = kind[len(pre):-6]
            # same-field siblings: Text <-> BLOB for def (defText/defBLOB share fields); Text <-> Switch needs
            # vocabulary text, so only used when there are no children
            if pre == "def" and k in ("Text", "BLOB"):
                other = "BLOB" if k == "Text" else "Text"
                return f"def{other}Vector", f"def{other}"
            if pre in ("set", "new") and k in ("Text", "Number", "Switch"):
                other = {"Text": "Number", "Number": "Switch", "Switch": "Text"}[k]
                return f"{pre}{other}Vector", None
    return None, None


def perturbations(spec):
    """Yield (label, perturbed_spec). Every one differs from spec in its expected view."""
    req, opt, trule, child = gen.MESSAGES[spec["kind"]]
    for a, v in spec["attrs"].items():
        p = copy.deepcopy(spec)
        p["attrs"][a] = _change_attr(a, v)
        yield f"attr-changed", p
        if a in opt:
            p = copy.deepcopy(spec)
            del p["attrs"][a]
            yield "attr-dropped", p
    for a in opt:
        if a not in spec["attrs"]:
            p = copy.deepcopy(spec)
            p["attrs"][a] = "added" if a not in gen.VOCAB_ATTRS else gen.VOCAB_ATTRS[a][0]
            yield "attr-added", p
            if a not in gen.VOCAB_ATTRS:
                for literal in ("None", "", "0", "False"):  # texts that look like what an absent value prints as
                    p = copy.deepcopy(spec)
                    p["attrs"][a] = literal
                    yield "attr-added-pythonic", p
    if spec.get("text") is not None:
        p = copy.deepcopy(spec)
        p["text"] = _change_text(spec["kind"], spec["text"])
        yield "text-changed", p
    ch = spec.get("children", [])
    n = len(ch)
    for i, c in enumerate(ch):
        pos = "last" if i == n - 1 else "notlast"
        preq, popt, prule = gen.PARTS[c["kind"]]
        for a, v in c["attrs"].items():
            p = copy.deepcopy(spec)
            p["children"][i]["attrs"][a] = _change_attr(a, v)
            yield f"child-attr-changed-{pos}", p
        for a in popt:
            p = copy.deepcopy(spec)
            if a in c["attrs"]:
                del p["children"][i]["attrs"][a]
                yield f"child-attr-dropped-{pos}", p
            else:
                p["children"][i]["attrs"][a] = "added"
                yield f"child-attr-added-{pos}", p
                for literal in ("None", ""):
                    p = copy.deepcopy(spec)
                    p["children"][i]["attrs"][a] = literal
                    yield f"child-attr-added-pythonic-{pos}", p
        if c.get("text") is None and prule in ("free", "number", "base64"):
            p = copy.deepcopy(spec)
            p["children"][i]["text"] = "None" if prule == "free" else ("0" if prule == "number" else "QQ==")
            yield f"child-text-added-{pos}", p
        if c.get("text") is None and prule in ("free", "base64"):
            # an object built with the empty string is not the object built without a value (they only become
            # indistinguishable on the wire, which is C03's normalisation, not part of this statement)
            p = copy.deepcopy(spec)
            p["children"][i]["text"] = ""
            yield f"child-text-empty-vs-absent-{pos}", p
        p = copy.deepcopy(spec)
        p["children"][i]["text"] = _change_text(c["kind"], c.get("text"))
        yield f"child-text-changed-{pos}", p
        if c.get("text") is not None and prule in ("free", "number", "base64"):
            p = copy.deepcopy(spec)
            p["children"][i]["text"] = None
            yield f"child-text-dropped-{pos}", p
        p = copy.deepcopy(spec)
        del p["children"][i]
        yield f"child-dropped-{pos}", p
        p = copy.deepcopy(spec)
        p["children"].insert(i, copy.deepcopy(c))
        yield f"child-duplicated-{pos}", p
        if i + 1 < n and gen.expected_view(ch[i]) != gen.expected_view(ch[i + 1]):
            p = copy.deepcopy(spec)
            p["children"][i], p["children"][i + 1] = p["children"][i + 1], p["children"][i]
            yield "child-swapped", p
    sk, sck = _sibling_kind(spec["kind"])
    if sk and (sck or not ch):
        p = copy.deepcopy(spec)
        p["kind"] = sk
        for c in p["children"]:
            c["kind"] = sck
        yield "kind-changed", p


def _pair(a_spec, b_spec, label):
    a, b = gen.build(a_spec), gen.build(b_spec)
    want = gen.expected_view(a_spec) == gen.expected_view(b_spec)
    if label.startswith("child-text-empty-vs-absent"):
        want = False  # the structural view normalises '' to absent; the objects differ in a value
    got = [(a == b), (b == a), not (a != b), not (b != a)]
    if any(bool(g) != want for g in got):
        raise Failure(
            f"eq-mismatch:{label}",
            f"views equal={want} but ==/!= give {got} for\n A={a_spec}\n B={b_spec}",
        )


def check_message(spec):
    # objects used as oracle input must reflect the spec (guards the harness, not the property)
    a = gen.build(spec)
    if gen.view(a) != gen.expected_view(spec):
        raise Failure("constructor-view", f"constructed object does not reflect its arguments: {gen.view(a)} vs {gen.expected_view(spec)}")
    _pair(spec, copy.deepcopy(spec), "rebuilt-copy")
    n = 1
    labels = set()
    for label, p in perturbations(spec):
        _pair(spec, p, label)
        labels.add(label.split("-last")[0].split("-notlast")[0])
        n += 1
    # attributes given as Python floats (what the driver framework passes for timeout / min / max / step) that differ far
    # behind the decimal point
    req_, opt_, _t, _c = gen.MESSAGES[spec["kind"]]
    float_pairs = [(2.5, 2.5000004), (4e-7, 4.4e-7), (1e-9, 1.1e-9), (60.0, 60.00000000001)]
    if "timeout" in opt_ or "timeout" in req_:
        for x, y in float_pairs:
            a_, b_ = gen.build(spec), gen.build(spec)
            a_.timeout, b_.timeout = x, y
            got_ = [(a_ == b_), (b_ == a_), not (a_ != b_), not (b_ != a_)]
            if any(got_):
                raise Failure("eq-mismatch:float-attribute-differs", f"timeout={x!r} vs timeout={y!r} (Python floats) compare {got_} for {spec}")
            n += 1
        labels.add("float-attribute-differs")
    for i, c in enumerate(spec.get("children", [])):
        if c["kind"] == "defNumber":
            for x, y in float_pairs[1:3]:
                a_, b_ = gen.build(spec), gen.build(spec)
                a_.children[i].step, b_.children[i].step = x, y
                if (a_ == b_) or not (a_ != b_):
                    raise Failure("eq-mismatch:float-attribute-differs:child", f"child {i} step={x!r} vs {y!r} compare equal for {spec}")
                n += 1
            break
    # look-alike spellings: canonically / compatibility-equivalent Unicode sequences, case twins and blank twins are
    # different code-point sequences (and different bytes on the wire), so the messages differ
    twins = [("\u00e9", "e\u0301"), ("\u212b", "\u00c5"), ("\u2126", "\u03a9"), ("\ufb01", "fi"), ("\u00df", "ss"), ("\u00a0x", " x"), ("K", "\u212a"), ("I", "\u0131")]
    free_attr = next((a_ for a_ in spec["attrs"] if a_ not in gen.VOCAB_ATTRS), None)
    sites = []
    if free_attr is not None:
        sites.append(("attr", None, free_attr))
    for i, c in enumerate(spec.get("children", [])):
        if "name" in c["attrs"]:
            sites.append(("child-attr", i, "name"))
        if gen.PARTS[c["kind"]][2] == "free":
            sites.append(("child-text", i, None))
        break
    if spec.get("text") is not None and gen.MESSAGES[spec["kind"]][2] == "free":
        sites.append(("text", None, None))
    for where, i, a_name in sites:
        for x, y in twins:
            pa, pb = copy.deepcopy(spec), copy.deepcopy(spec)
            for p_, t_ in ((pa, x), (pb, y)):
                if where == "attr":
                    p_["attrs"][a_name] = "v" + t_
                elif where == "child-attr":
                    p_["children"][i]["attrs"][a_name] = "v" + t_
                elif where == "child-text":
                    p_["children"][i]["text"] = "v" + t_
                else:
                    p_["text"] = "v" + t_
            if gen.expected_view(pa) != gen.expected_view(pb):
                _pair(pa, pb, f"lookalike-spelling-{where}")
                n += 1
        labels.add("lookalike-spelling")
    # long values (a BLOB payload, a long text) that differ in ONE character somewhere in the middle
    for i, c in enumerate(spec.get("children", [])):
        prule = gen.PARTS[c["kind"]][2]
        if prule not in ("free", "base64"):
            continue
        unit = "QUJD" if prule == "base64" else "abcd"
        for total in (1200, 9000):
            long_a = unit * (total // 4)
            mid = (len(long_a) // 2) & ~3
            long_b = long_a[:mid] + ("QUJE" if prule == "base64" else "abce") + long_a[mid + 4:]
            a2, b2 = copy.deepcopy(spec), copy.deepcopy(spec)
            a2["children"][i]["text"], b2["children"][i]["text"] = long_a, long_b
            _pair(a2, b2, f"child-long-value-middle-changed-{total}")
            n += 1
            labels.add("child-long-value-middle-changed")
        break  # one child per message is enough
    check_message.pairs += n
    nchild = len(spec.get("children", []))
    return Info(nontrivial=nchild >= 2, labels=[f"children={min(nchild, 3)}{'+' if nchild >= 3 else ''}", spec["kind"][:3]] + sorted(labels))


check_message.pairs = 0


def check_pair(case):
    """Replay format for one (message, perturbed message) pair."""
    _pair(case["a"], case["b"], case.get("label", "pair"))
    return Info(nontrivial=True)


SUBCHECKS = {"perturb-all": check_message, "pair": check_pair}


def run(ctx):
    n = ctx.scale(1500, 10000)
    ctx.hyp("perturb-all", gen.msg_spec(max_children=5), check_message, n)
    ctx.notes["pairs_compared"] = check_message.pairs
