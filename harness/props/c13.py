"""C13 - The parser accepts only protocol-conformant messages.

Oracle: IndiMessage.from_string either raises, or returns an object on which the independent
validator below (vocabularies and required attributes hard-coded from the INDI DTD) finds every
constrained field conformant.
"""
from __future__ import annotations

import copy
import re

from hypothesis import strategies as st

from harness import gen
from harness.core import Failure, Info

ID = "C13"
LEVEL = "exploration"
SHARDS = {"quick": 4, "thorough": 16}
RULE = (
    "'perturb-all': exhaustive sweep over every message kind x every constrained field (state, perm, rule, switch/light "
    "values of def/one parts and of the top-level oneLight, enableBLOB mode, number text, each required attribute, child "
    "kind, tag) x a replacement catalogue (absent, empty, wrong case, member of another vocabulary, arbitrary text, "
    "Python-internal looking strings such as module paths, dunder names, class attribute names, None/True, every attribute name and string value found by reflection on the tree's vocabulary classes, a vocabulary member with a "
    "control character attached) - run in this interpreter and once more in a child interpreter started with -O; 'perturb': "
    "Hypothesis msg_spec with 1-3 random perturbations and a random foreign spelling; 'random-xml': random element trees over "
    "known/unknown tags and attribute names; thorough adds an atheris campaign on the same target. A case is non-trivial "
    "when a constrained field was perturbed or the parser accepted the element; distinct = canonical JSON of the case. "
    "The accepted/rejected ratio is reported in coverage.classes (accepted must stay >= 30% for 'perturb')."
)
ASSUMPTIONS = [
    "an absent number value (<oneNumber/>) is conformant: the library deliberately allows and emits None numbers",
    "required attribute 'present' means present in the XML, possibly empty",
]

NUMBER_RE = re.compile(
    r"^\s*[+-]?(?:(?:\d+\.?\d*|\.\d+)(?:[eE][+-]?\d+)?|\d+(?:\.\d*)?(?:[:; ]+\d+(?:\.\d*)?){1,2})\s*$"
)  # \d also matches non-ASCII digits, which Python's float() reads too; they are tolerated here (not INDI, but they denote numbers)

PY_INTERNAL = [
    "indi.message.const", "indi.message", "indi.message.checks", "indi.message.base", "indi.device.properties.const",
    "__main__", "__module__", "__dict__", "__doc__", "__weakref__", "__qualname__", "State", "SwitchState", "Permissions",
    "SwitchRule", "BLOBEnable", "IDLE", "OK", "BUSY", "ALERT", "ON", "OFF", "READ_ONLY", "READ_WRITE", "WRITE_ONLY",
    "ONE_OF_MANY", "AT_MOST_ONE", "ANY_OF_MANY", "NEVER", "ALSO", "ONLY", "None", "True", "False", "builtins", "str",
    "<attribute '__dict__' of 'State' objects>", "<attribute '__weakref__' of 'State' objects>",
]


def _reflected():
    """Every attribute name and attribute value of the library's vocabulary classes, read from the tree under test:
    whatever a validator that reflects over those classes could mistake for a member."""
    out = []
    mods = []
    for modname in ("indi.message.const", "indi.device.properties.const", "indi.message.checks"):
        try:
            mods.append(__import__(modname, fromlist=["x"]))
        except Exception:  # noqa: BLE001
            pass
    for m in mods:
        for cls in list(vars(m).values()):
            if not isinstance(cls, type) or not getattr(cls, "__module__", "").startswith("indi."):
                continue
            for k, v in list(vars(cls).items()):
                for cand in (k, v if isinstance(v, str) else None):
                    if isinstance(cand, str) and cand not in out and len(cand) < 80:
                        out.append(cand)
    return sorted(out)


CATALOGUE = (
    [None, "", " "]
    + ["ok", "OK", "on", "ON", "off", "idle", "RW", "Rw", "oneofmany", "never", "ALSO"]
    + ["Ok", "On", "rw", "OneOfMany", "Also", "Idle", "Off", "ro", "Never"]  # members of *other* vocabularies
    + ["x", "0", "1", "Okay", "On ", "O n", "Ok,Busy", "Ok\nBusy", "é", "<&>"]
    # things Python's own conversions accept but INDI number syntax does not
    + ["nan", "NaN", "inf", "-inf", "+Infinity", "infinity", "1_000", "1_0.5e1_0", "0x10", "0b1", "1e", "e5", "1.2.3", "--1", "1 ", " 1", "1:2:3:4", "1:", ":30", "1::30", "1j", "1e5L", "١٢٣"]
    + PY_INTERNAL
    + [w for w in _reflected() if w not in PY_INTERNAL]
    # a member of a vocabulary with one control character attached (attribute values keep it when written as a character reference)
    + [w + sfx for w in ("Ok", "Idle", "rw", "ro", "OneOfMany", "AnyOfMany", "On", "Off", "Also", "Only", "Never", "Alert") for sfx in ("\n", "\r", "\t")]
    + ["\n" + w for w in ("Ok", "rw", "OneOfMany", "On", "Also")]
)


# --------------------------------------------------------------------------------------------
# independent conformance validator


def _vocab_field(obj, tag, field, vocab, problems):
    v = getattr(obj, field, None)
    if v not in vocab:
        problems.append((f"{tag}.{field}", v))


def validate(msg):
    """List of (field, offending value) for a parsed library object; [] = conformant."""
    problems = []
    tag = msg.__class__.tag_name()
    if tag not in gen.MESSAGES:
        problems.append(("tag", tag))
        return problems
    if tag == "oneLight":  # registered as a top-level message by the library
        if getattr(msg, "name", None) is None:
            problems.append(("oneLight.name", None))
        _vocab_field(msg, tag, "value", gen.STATES, problems)
        return problems
    req, opt, trule, child = gen.MESSAGES[tag]
    for a in req:
        if getattr(msg, a, None) is None:
            problems.append((f"{tag}.{a}", None))
    if "state" in req:
        _vocab_field(msg, tag, "state", gen.STATES, problems)
    if "perm" in req:
        _vocab_field(msg, tag, "perm", gen.PERMS, problems)
    if "rule" in req:
        _vocab_field(msg, tag, "rule", gen.RULES, problems)
    if trule == "blobenable":
        _vocab_field(msg, tag, "value", gen.BLOBENABLE, problems)
    if child:
        preq, popt, prule = gen.PARTS[child]
        for c in getattr(msg, "children", None) or ():
            ctag = c.__class__.tag_name()
            if ctag != child:
                problems.append((f"{tag}.child-kind", ctag))
                continue
            for a in preq:
                if getattr(c, a, None) is None:
                    problems.append((f"{ctag}.{a}", None))
            if prule == "switch":
                _vocab_field(c, ctag, "value", gen.SWITCH, problems)
            elif prule == "state":
                _vocab_field(c, ctag, "value", gen.STATES, problems)
            elif prule == "number":
                v = getattr(c, "value", None)
                if v is not None and not NUMBER_RE.match(str(v)):
                    problems.append((f"{ctag}.value", v))
    else:
        if getattr(msg, "children", None):
            problems.append((f"{tag}.children", "unexpected"))
    return problems


def _value_class(v):
    if v is None:
        return "absent"
    if v in PY_INTERNAL or str(v).startswith(("indi.", "__", "<attribute")):
        return "python-internal"
    return "other"


def check_xml(case):
    """case: {"xml": str} - parse must fail or yield a conformant message."""
    from indi.message import IndiMessage

    text = case["xml"]
    try:
        msg = IndiMessage.from_string(text)
    except Exception:  # noqa - rejecting is always allowed
        return Info(nontrivial=bool(case.get("perturbed")), labels=["rejected"] + case.get("labels", []))
    problems = validate(msg)
    if problems:
        field, v = problems[0]
        raise Failure(f"nonconformant:{field}:{_value_class(v)}", f"parser accepted {text!r} with {field}={v!r} (all: {problems})")
    return Info(nontrivial=True, labels=["accepted"] + case.get("labels", []))


def check_spec(case):
    """case: {"spec": msg_spec possibly non-conformant, "choices": [...], "perturbed": [...]}"""
    text = gen.render_foreign(case["spec"], case.get("choices") or [0])
    return check_xml({"xml": text, "perturbed": case.get("perturbed"), "labels": case.get("labels", [])})


# --------------------------------------------------------------------------------------------
# perturbation enumeration

_REP = {
    "device": "dev", "name": "nm", "version": "1.7", "uid": "u1", "state": "Busy", "perm": "rw", "rule": "AtMostOne",
    "label": "L", "group": "g", "timestamp": "2026-10-02T00:00:00", "message": "m", "timeout": "1.5",
    "format": "%8.3m", "min": "0", "max": "10", "step": "1", "size": "3",
}
_REPTEXT = {"free": "t", "number": "-1:30", "switch": "On", "state": "Alert", "base64": "QUJD"}


def base_spec(kind):
    if kind == "oneLight":
        return {"kind": "oneLight", "attrs": {"name": "nm"}, "text": "Ok", "children": []}
    req, opt, trule, child = gen.MESSAGES[kind]
    spec = {"kind": kind, "attrs": {a: _REP[a] for a in req + opt}, "text": "Also" if trule == "blobenable" else None, "children": []}
    if child:
        preq, popt, prule = gen.PARTS[child]
        for i in range(2):
            spec["children"].append({"kind": child, "attrs": {**{a: _REP[a] for a in preq + popt}, "name": f"e{i}"}, "text": _REPTEXT[prule]})
    return spec


def constrained_paths(spec):
    """(path, description) of every constrained field of a spec. path = ('attr', name) |
    ('text',) | ('child', i, 'attr', name) | ('child', i, 'text') | ('child', i, 'kind') | ('kind',)"""
    kind = spec["kind"]
    out = [("kind",)]
    if kind == "oneLight":
        return out + [("attr", "name"), ("text",)]
    req, opt, trule, child = gen.MESSAGES.get(kind, ([], [], None, None))
    for a in req:
        out.append(("attr", a))
    if trule:
        out.append(("text",))
    for i, c in enumerate(spec["children"]):
        out.append(("child", i, "kind"))
        preq, popt, prule = gen.PARTS.get(c["kind"], ([], [], "free"))
        for a in preq:
            out.append(("child", i, "attr", a))
        if prule in ("switch", "state", "number"):
            out.append(("child", i, "text"))
    return out


def apply(spec, path, value):
    s = copy.deepcopy(spec)
    tgt = s
    p = list(path)
    if p[0] == "child":
        tgt = s["children"][p[1]]
        p = p[2:]
    if p[0] == "kind":
        tgt["kind"] = value if value not in (None, "", " ") else "x"
    elif p[0] == "text":
        tgt["text"] = value
    else:
        if value is None:
            tgt["attrs"].pop(p[1], None)
        else:
            tgt["attrs"][p[1]] = value
    return s


ALL_KINDS = sorted(gen.MESSAGES)
KIND_REPLACEMENTS = ALL_KINDS + sorted(gen.PARTS) + ["fooVector", "oneFoo", "defVector", "setVector", "newLightVector", "indiMessage", "message ", "Message", "DefTextVector"]


def perturb_all_cases():
    for kind in ALL_KINDS:
        spec = base_spec(kind)
        yield {"spec": spec, "perturbed": [], "labels": ["unperturbed"]}
        for path in constrained_paths(spec):
            reps = KIND_REPLACEMENTS if path[-1] == "kind" else CATALOGUE
            for v in reps:
                yield {"spec": apply(spec, path, v), "perturbed": [[list(path), v]], "labels": [f"field={path[-1] if path[-1] != 'attr' else path[-2]}"]}


@st.composite
def perturbed_spec(draw):
    spec = draw(gen.msg_spec(max_children=3) | st.sampled_from(ALL_KINDS).map(base_spec))
    k = draw(st.integers(0, 3))
    perturbed = []
    for _ in range(k):
        paths = constrained_paths(spec)
        path = paths[draw(st.integers(0, len(paths) - 1))]
        if path[-1] == "kind":
            v = draw(st.sampled_from(KIND_REPLACEMENTS))
        else:
            v = draw(st.sampled_from(CATALOGUE) | gen.xml_text(4))
        spec = apply(spec, path, v)
        perturbed.append([list(path), v])
    return {"spec": spec, "choices": draw(gen.choices), "perturbed": perturbed, "labels": [f"perturbations={k}"]}


_TAGS = ALL_KINDS + sorted(gen.PARTS) + ["foo", "defVector"]
_ATTRS = sorted(_REP) + ["value", "children", "junk", "self", "args"]


@st.composite
def random_xml(draw):
    def element(depth):
        tag = draw(st.sampled_from(_TAGS))
        attrs = draw(st.dictionaries(st.sampled_from(_ATTRS), st.sampled_from(CATALOGUE[1:]) | gen.attr_value("device"), max_size=6))
        text = draw(st.none() | st.sampled_from(CATALOGUE[1:]) | gen.number_text())
        children = []
        if depth < 2:
            children = [element(depth + 1) for _ in range(draw(st.integers(0, 3)))]
        return {"kind": tag, "attrs": attrs, "text": text, "children": children}

    def render(e, ch):
        head = "<" + e["kind"] + "".join(f' {k}="{gen._esc(str(v), chr(34), ch)}"' for k, v in e["attrs"].items())
        body = (gen._esc(e["text"], None, ch) if e["text"] else "") + "".join(render(c, ch) for c in e["children"])
        return f"{head}>{body}</{e['kind']}>" if body else head + "/>"

    e = element(0)
    return {"xml": render(e, gen.Chooser([0])), "perturbed": [1], "labels": ["random-xml"]}


def replay_optimized(case):
    """Replay of an 'optimized-interpreter' finding: run the catalogue again in a -O child."""
    class _C:
        classes = __import__("collections").Counter()
        found = None

        def add_violation(self, sub, case_, f):
            self.found = f

    c = _C()
    _optimized_child(c)
    if c.found is not None:
        raise c.found
    return Info(nontrivial=True, labels=["python -O child"])


SUBCHECKS = {"perturb-all": check_spec, "perturb": check_spec, "random-xml": check_xml, "fuzz": check_xml, "optimized-interpreter": replay_optimized}


def _optimized_child(ctx):
    """The same exhaustive catalogue in a child interpreter started with -O: conformance checks written as `assert` vanish
    there, and the protocol does not depend on how the interpreter was started."""
    import os
    import subprocess
    import sys

    from harness.core import VERIF

    env = {**os.environ, "VERIF_PYOPT_CHILD": "1"}
    r = subprocess.run([sys.executable, "-O", "-m", "harness.run", "C13", "--tier", "quick", "--no-evidence", "--shards", "4"],
                       cwd=VERIF, env=env, capture_output=True, text=True, timeout=1500)
    first = next((l for l in r.stdout.splitlines() if l.startswith("violation:")), "")
    if r.returncode == 1:
        f = Failure("under-python-O:" + (first.split(":", 3)[2] if first.count(":") >= 3 else "violation"), f"in an interpreter started with -O: {first[:600]}")
        ctx.add_violation("optimized-interpreter", {"note": "run ./check C13 under python -O", "first": first[:600]}, f)
    elif r.returncode != 0:
        from harness.core import HarnessError

        raise HarnessError(f"C13 -O child failed (rc {r.returncode}): {r.stdout[-400:]} {r.stderr[-400:]}")
    ctx.classes["optimized-interpreter:ran"] += 1


def run(ctx):
    import os

    if os.environ.get("VERIF_PYOPT_CHILD") == "1":
        ctx.each("perturb-all", perturb_all_cases(), check_spec, stop_after=3)
        return
    if ctx.shard == 0:
        _optimized_child(ctx)
    n = ctx.each("perturb-all", perturb_all_cases(), check_spec, stop_after=6)
    ctx.exhaustive["perturb-all"] = {"n_cases": n, "complete": True, "bound": f"{len(ALL_KINDS)} kinds x constrained fields x {len(CATALOGUE)} replacements ({len(KIND_REPLACEMENTS)} for tags)"}
    ctx.hyp("perturb", perturbed_spec(), check_spec, ctx.scale(1000, 15000))
    ctx.hyp("random-xml", random_xml(), check_xml, ctx.scale(400, 5000))
    acc = ctx.classes.get("perturb:accepted", 0)
    rej = ctx.classes.get("perturb:rejected", 0)
    if acc + rej >= 200 and acc < 0.3 * (acc + rej) and not ctx.violations and not ctx.known_hits:
        from harness.core import HarnessError

        raise HarnessError(f"C13 generator degenerated: accepted {acc} of {acc + rej}")
    if ctx.tier == "thorough":
        from harness import fuzz

        fuzz.run_atheris(ctx, "fuzz", "c13", runs=300_000 if ctx.shard < 2 else 0)
