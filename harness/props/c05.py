"""C05 - Device messages fan out to every client, subject to its BLOB policy."""
from __future__ import annotations

import itertools

from hypothesis import strategies as st

from harness import routing
from harness.core import Failure, Info

ID = "C05"
LEVEL = "exploration"
SHARDS = {"quick": 8, "thorough": 16}
RULE = (
    "'states': exhaustive enumeration of every abstract router state of the bounded universe (each of <= 3 clients unregistered or "
    "registered with a policy in {unset, Never, Also, Only} for each of 2 device names: 17^3 = 4913 states, 17^2 in quick), each built "
    "on a real Router by its canonical path; in every state EVERY device-originated send (17 kinds incl. setBLOBVector, the "
    "getProperties relay and <message>) x device name {A, B, none} x sender {each device, each client, none} is compared with the "
    "reference router, and every mutating op (unregister, register, re-register, enableBLOB(client, device, value)) is applied to a "
    "fresh copy of the state - once untouched and once after it has routed a representative set of sends ('warm') -, the router's "
    "public state compared with the model and the representative send set re-observed. "
    "'reactive': endpoints that send from inside a delivery (definition in answer to getProperties, enableBLOB in answer to "
    "the definition, a chain of relayed notices 2-4 deep): the policy must be in force for the next message and every notice is "
    "delivered exactly once. 'related-names': two devices whose names are related as strings (dotted / separated prefix, property name, case or blank variant, glob pattern) x every enableBLOB sequence of length <= 3: policies stay per device. 'history': Hypothesis histories (<= 40 ops, <= 6 clients) of register/unregister/enableBLOB/device-send. Non-trivial: a send "
    "observed while >= 2 registered clients hold different policies for the message's device, or a policy for another "
    "device/client is present (independence). Exhaustive sends are distinct by construction; histories by canonical JSON."
)
ASSUMPTIONS = [
    "a connection registers itself once; double registration of a live client is not in the domain",
    "harness/routing.py RefRouter is the statement of C04/C05",
]

OPTS = [None] + [(a, b) for a in ("unset", "Never", "Also", "Only") for b in ("unset", "Never", "Also", "Only")]
DEV_SENDS = [(k, d) for k in routing.DEVICE_KINDS for d in (0, 1, 2)]  # DEVNAMES indices A, B, None
OBS_KINDS = ["setTextVector", "setBLOBVector", "getProperties", "defBLOBVector", "message"]


def build_state(state, ndev=3):
    """state: list per client of None | [polA, polB]"""
    w = routing.World(ndev=ndev, ncli=len(state))
    for i in range(ndev):
        w.apply({"op": "regdev", "i": i})
    for i, s in enumerate(state):
        if s is not None:
            w.apply({"op": "reg", "i": i})
    for i, s in enumerate(state):
        if s is not None:
            for d, pol in enumerate(s):
                if pol != "unset":
                    w.apply({"op": "send", "kind": "enableBLOB", "dev": d, "sender": i, "value": routing.POLICIES.index(pol)})
    return w


def _nontrivial_send(state, dev):
    regs = [s for s in state if s is not None]
    if len(regs) >= 2 and dev in (0, 1) and len({s[dev] for s in regs}) >= 2:
        return True
    other = 1 - dev if dev in (0, 1) else 0
    return any(s[other] != "unset" for s in regs) and len(regs) >= 1


def mutations(state):
    n = len(state)
    for i in range(n):
        yield [{"op": "unreg", "i": i}]
        if state[i] is None:
            yield [{"op": "reg", "i": i}]
        else:
            yield [{"op": "unreg", "i": i}, {"op": "reg", "i": i}]
        for d in (0, 1):
            for v in range(3):
                yield [{"op": "send", "kind": "enableBLOB", "dev": d, "sender": i, "value": v}]


def check_state(case):
    """case: {"state": [...]} - everything observable in and one step around this state."""
    state = [None if s is None else list(s) for s in case["state"]]
    n = len(state)
    w = build_state(state)
    nsender = len(w.senders())
    n_eval = n_nt = 0
    only = case.get("only")  # replay of a single step
    if only is None or only.get("phase") == "send":
        sends = [(k, d, s) for (k, d) in DEV_SENDS for s in range(nsender)] if only is None else [(only["kind"], only["dev"], only["sender"])]
        for k, d, s in sends:
            op = {"op": "send", "kind": k, "dev": d, "sender": s}
            try:
                w.apply(op)
            except Failure as f:
                f.min_case = {"state": state, "only": {"phase": "send", "kind": k, "dev": d, "sender": s}}
                raise
            n_eval += 1
            n_nt += _nontrivial_send(state, d)
    muts = list(mutations(state)) if only is None else ([only["mut"]] if only.get("phase") == "mut" else [])
    for mut, warm in [(m, wm) for m in muts for wm in ((False, True) if only is None else (bool(only.get("warm")),))]:
        w2 = build_state(state)
        try:
            if warm:
                # the same state after it has already routed traffic of every observed kind (anything the router
                # remembers about earlier deliveries must not outlive the policy change)
                for k in OBS_KINDS:
                    for d in (0, 1, 2):
                        w2.apply({"op": "send", "kind": k, "dev": d, "sender": nsender - 1})
                        n_eval += 1
            for op in mut:
                w2.apply(op)
            for k in OBS_KINDS:
                for d in (0, 1, 2):
                    for s in list(range(n)) + [n, nsender - 1]:
                        w2.apply({"op": "send", "kind": k, "dev": d, "sender": s})
                        n_eval += 1
        except Failure as f:
            f.min_case = {"state": state, "only": {"phase": "mut", "mut": mut, "warm": warm}}
            raise
        n_nt += 1
    regs = sum(1 for s in state if s is not None)
    return Info(n_eval=n_eval, n_nontrivial=n_nt, label_counts={f"registered={regs}": 1})


def check_reactive(case):
    """Endpoints that react from INSIDE a delivery (a driver answers getProperties with definitions, a snooping client
    answers the first definition with enableBLOB, an application relays): whatever is sent that way is routed like any
    other message - delivered once to everybody entitled, policies in force before the next message is routed.
    case: {"depth": 2..4, "policy": "Also"|"Only"|"Never", "observers": int}"""
    from indi import message as M
    from indi.routing import Client, Device, Router

    router = Router()
    got = {}

    class Obs(Client):
        def __init__(self, name):
            self.name_ = name
            got[name] = []

        def message_from_device(self, m):
            got[self.name_].append(m.__class__.tag_name() + ":" + str(getattr(m, "message", "") or getattr(m, "name", "")))

    class Reactor(Obs):
        """Answers the first definition of device D with its BLOB policy (what SnoopingClient / Client do)."""

        def __init__(self, name, policy):
            super().__init__(name)
            self.policy, self.done = policy, False

        def message_from_device(self, m):
            super().message_from_device(m)
            if m.__class__.tag_name().startswith("def") and not self.done:
                self.done = True
                router.process_message(M.EnableBLOB(device="D", value="".join(list(self.policy))), sender=self)

    class Dev(Device):
        """Answers getProperties with a definition, and relays a chain of notices (each sent while the previous one is
        being delivered)."""

        def accepts(self, device):
            return device in (None, "D")

        def message_from_client(self, m):
            if m.__class__.tag_name() == "getProperties":
                router.process_message(M.DefBLOBVector(device="D", name="IMG", state="Ok", perm="ro", children=()), sender=self)

    class Chain(Obs):
        def __init__(self, name, depth, dev):
            super().__init__(name)
            self.depth, self.dev = depth, dev

        def message_from_device(self, m):
            super().message_from_device(m)
            text = getattr(m, "message", None)
            if text and text.startswith("chain-") and int(text[6:]) < self.depth:
                router.process_message(M.Message(device="D", message=f"chain-{int(text[6:]) + 1}"), sender=self.dev)

    dev = Dev()
    router.register_device(dev)
    observers = [Obs(f"o{i}") for i in range(case.get("observers", 1))]
    reactor = Reactor("reactor", case["policy"])
    chain = Chain("chain", case["depth"], dev)
    for c in observers + [reactor, chain]:
        router.register_client(c)
    asker = observers[0]
    # 1. a handshake: getProperties -> definition (depth 1) -> the reactor's enableBLOB (depth 2)
    router.process_message(M.GetProperties(version="1.7", device="D"), sender=asker)
    router.process_message(M.SetBLOBVector(device="D", name="IMG", state="Ok", children=()), sender=dev)
    n_blob = sum(1 for t in got["reactor"] if t.startswith("setBLOBVector"))
    want_blob = 1 if case["policy"] in ("Also", "Only") else 0
    if n_blob != want_blob:
        raise Failure(f"reactive:policy-sent-from-inside-a-delivery-not-in-force:{case['policy']}", f"{case}: the reactor set {case['policy']} while the definition was being delivered; of the next setBLOBVector it received {n_blob}, expected {want_blob}")
    # 2. a chain of notices, each routed while the previous one is being delivered
    for k in got:
        got[k].clear()
    router.process_message(M.Message(device="D", message="chain-1"), sender=dev)
    want = [f"message:chain-{i}" for i in range(1, case["depth"] + 1)]
    for o in observers:
        if sorted(got[o.name_]) != sorted(want):
            raise Failure("reactive:chain-not-delivered-exactly-once", f"{case}: observer {o.name_} received {got[o.name_]}, expected (in any order) {want}")
    return Info(nontrivial=True, labels=[f"depth={case['depth']}", case["policy"]])


RELATED_NAMES = [
    ("Cam", "Cam.IMG"), ("Cam", "Cam.Guide"), ("Cam", "Camera"), ("Cam", "cam"), ("Cam", "Cam "), ("Cam", "Cam/IMG"), ("Cam", "Cam:IMG"),
    ("Cam", "Cam IMG"), ("IMG", "Cam"), ("Cam", "Cam*"), ("Cam", "Ca?"), ("Cam[1]", "Cam1"), ("Cam", "Cam\u00e9"),
]


def check_related_names(case):
    """Two devices whose names are related as strings (one a dotted / separated prefix of the other, a property name of the
    other, a case or blank variant, a glob pattern covering the other): policies stay per device.
    case: {"names": [a, b], "ops": [[dev index, policy], ...]}"""
    from indi import message as M
    from indi.routing import Client, Device, Router

    names = case["names"]
    router = Router()
    got = {"c": [], "bystander": []}

    class Obs(Client):
        def __init__(self, key):
            self.key = key

        def message_from_device(self, m):
            got[self.key].append((m.__class__.tag_name(), m.device))

    class Dev(Device):
        def __init__(self, name):
            self.name_ = name

        def accepts(self, device):
            return device in (None, self.name_)

        def message_from_client(self, m):
            pass

    devs = [Dev(n) for n in names]
    for d in devs:
        router.register_device(d)
    c, by = Obs("c"), Obs("bystander")
    router.register_client(c)
    router.register_client(by)
    pol = {}
    for di, p in case["ops"]:
        router.process_message(M.EnableBLOB(device="".join(list(names[di])), value="".join(list(p))), sender=c)
        pol[names[di]] = p
    for d in devs:
        router.process_message(M.SetBLOBVector(device=d.name_, name="IMG", state="Ok", children=()), sender=d)
        router.process_message(M.SetTextVector(device=d.name_, name="IMG", state="Ok", children=()), sender=d)
    want = []
    for n in names:
        p = pol.get(n, "Never")
        if p in ("Also", "Only"):
            want.append(("setBLOBVector", n))
        if p != "Only":
            want.append(("setTextVector", n))
    if sorted(got["c"]) != sorted(want):
        raise Failure("related-names:policy-leaks-between-devices-with-related-names", f"{case}: the client received {sorted(got['c'])}, expected {sorted(want)}")
    want_by = [("setTextVector", n) for n in names]
    if sorted(got["bystander"]) != sorted(want_by):
        raise Failure("related-names:bystander-affected", f"{case}: a client that set no policy received {sorted(got['bystander'])}, expected {sorted(want_by)}")
    return Info(nontrivial=len(case["ops"]) >= 2 and len({d for d, _ in case["ops"]}) == 2, labels=[f"{names[0]}|{names[1]}"])


def related_cases():
    ops1 = [[d, p] for d in (0, 1) for p in ("Never", "Also", "Only")]
    for names in RELATED_NAMES:
        for n in (1, 2, 3):
            for seq in itertools.product(ops1, repeat=n):
                yield {"names": list(names), "ops": [list(o) for o in seq]}


def check_history(case):
    w = routing.World(ndev=case["ndev"], ncli=case["ncli"])
    nt = False
    labels = set()
    for op in case["ops"]:
        r = w.apply(op)
        if isinstance(r, tuple):
            _, kind, devname, sender, want = r
            pols = {c: w.model.policy.get(c, {}) for c in w.model.clients}
            here = {p.get(devname, "unset") for p in pols.values()}
            elsewhere = any(k != devname for p in pols.values() for k in p)
            if kind in routing.DEVICE_KINDS and ((len(pols) >= 2 and len(here) >= 2) or elsewhere):
                nt = True
            if kind == "setBLOBVector":
                labels.add("blob-send")
            if kind == "getProperties":
                labels.add("getProperties-relay")
        elif r == "unreg":
            labels.add("unregister")
    return Info(nontrivial=nt, labels=sorted(labels))


device_history_ops = st.one_of(
    st.fixed_dictionaries({"op": st.just("reg"), "i": st.integers(0, 5)}),
    st.fixed_dictionaries({"op": st.just("reg"), "i": st.integers(0, 5)}),
    st.fixed_dictionaries({"op": st.just("unreg"), "i": st.integers(0, 5)}),
    st.fixed_dictionaries({"op": st.just("regdev"), "i": st.integers(0, 2)}),
    st.fixed_dictionaries({"op": st.just("send"), "kind": st.just("enableBLOB"), "dev": st.integers(0, 1), "sender": st.integers(0, 5), "value": st.integers(0, 2)}),
    st.fixed_dictionaries({"op": st.just("send"), "kind": st.just("enableBLOB"), "dev": st.integers(0, 1), "sender": st.integers(0, 5), "value": st.integers(0, 2)}),
    st.fixed_dictionaries({"op": st.just("send"), "kind": st.sampled_from(routing.DEVICE_KINDS), "dev": st.integers(0, 3), "sender": st.integers(0, 12)}),
    st.fixed_dictionaries({"op": st.just("send"), "kind": st.just("setBLOBVector"), "dev": st.integers(0, 1), "sender": st.integers(0, 12)}),
)
history = st.fixed_dictionaries({"ndev": st.integers(1, 3), "ncli": st.integers(1, 6), "ops": st.lists(device_history_ops, min_size=2, max_size=40)})

SUBCHECKS = {"states": check_state, "history": check_history, "reactive": check_reactive, "related-names": check_related_names}


def states(n):
    for combo in itertools.product(OPTS, repeat=n):
        yield {"state": [None if s is None else list(s) for s in combo]}


def run(ctx):
    n = 2 if ctx.tier == "quick" else 3
    cnt = ctx.each("states", states(n), check_state, stop_after=6, timeout=120)
    ctx.exhaustive["states"] = {"complete": True, "n_states": cnt, "bound": f"{n} clients x 2 device names x 4 policy values incl. unset = {17 ** n} abstract states; every device-originated send and every mutating op in each"}
    ctx.hyp("history", history, check_history, ctx.scale(250, 8000))
    ctx.each("reactive", [{"depth": d, "policy": p, "observers": o} for d in (2, 3, 4) for p in ("Also", "Only", "Never") for o in (1, 2)], check_reactive, stop_after=2)
    cnt = ctx.each("related-names", related_cases(), check_related_names, stop_after=3)
    ctx.exhaustive["related-names"] = {"complete": True, "n_cases": cnt, "bound": f"{len(RELATED_NAMES)} name pairs x every enableBLOB sequence of length 1..3 over (2 devices x 3 policies)"}
