"""C02 - Stream framing is lossless, ordered and independent of fragmentation."""
from __future__ import annotations

import itertools

from hypothesis import strategies as st

from harness import buf, gen
from harness.core import Failure, Info

ID = "C02"
LEVEL = "exploration"
SHARDS = {"quick": 8, "thorough": 16}
RULE = (
    "streams of 1-8 messages from the full grammar (canonical = the library's own serialization, or a foreign spelling from the "
    "hand-written serializer: declaration or not, indentation, either quote style, self-closing or explicit empty elements, "
    "character references), optional inter-message whitespace. Partitions: 'cuts1'/'cuts2'/'cuts3' enumerate EVERY 1-, 2- and "
    "3-cut partition of a fixed corpus of streams (2-cut for streams <= 300 chars, 3-cut for <= 70 chars, thorough only) and "
    "every 1-cut partition of each Hypothesis stream; 'charwise' feeds one character at a time; 'random' draws k-cut lists. "
    "Threshold in {longest element of the stream (the smallest value the statement covers), 2048, disabled}. Oracle after every "
    "append+process: delivered views == expected views (from the specs) of exactly the messages whose last character has been "
    "fed (lossless, ordered, once each, prompt); retained data is a suffix of what was fed; the consumer is only ever called "
    "with messages. Non-trivial: some message is split across >= 2 pieces; distinct = canonical JSON of (stream, partition, "
    "threshold); partitions inside an exhaustive block are distinct by construction. 'handlers': the same oracle through the "
    "real read loops of the TCP client handler (plain and BLOB-mode), the TCP server handler and the TTY server handler (fake "
    "streams, a recording consumer / router): the byte stream arrives in chunks drawn from {1, 7, 100, 512, 1023, 1024, 1025, "
    "2048, 3072} and, in half of the cases, inter-message whitespace is sized so that every message ends exactly on a multiple "
    "of 1024 bytes (the handlers' read size); after every chunk the handler must have delivered exactly the completed messages."
)
ASSUMPTIONS = [
    "messages longer than an enabled threshold are outside the statement",
    "comments / processing instructions are not 'equivalent spellings' (left to C11); a text value wrapped in a CDATA section is",
]


def _threshold(case, items):
    t = case.get("threshold", 2048)
    if t == "max":
        return max(buf.element_lengths(items))
    return t


def run_partition(text, ends, views, cuts, threshold):
    """Feed `text` cut at `cuts`; returns (#pieces, split_some_message)."""
    f = buf.Feed(threshold)
    pieces = buf.pieces_from_cuts(text, cuts)
    fed = 0
    for p in pieces:
        f.feed(p)
        fed += len(p)
        k = sum(1 for e in ends if e <= fed)
        want = views[:k]
        got = f.delivered
        if got != want:
            if len(got) < len(want):
                kind = "late-or-lost"
            elif len(got) > len(want):
                kind = "extra-or-early"
            else:
                kind = "content-differs"
            tag = want[len(got)][0] if len(got) < len(want) else "-"
            raise Failure(
                f"{kind}:{'message' if tag == 'message' else 'any'}:T={'None' if threshold is None else 'set'}",
                f"after {fed}/{len(text)} chars (cuts {sorted(cuts)[:8]}, threshold {threshold}): delivered {len(got)} messages, expected {len(want)}"
                f"\n first difference: got {got[len(want) - 1] if len(got) >= len(want) and want else got[-1:]}\n want {want[-1:]}\n stream {text[:400]!r}",
            )
        data = f.buf.data
        if not text[:fed].endswith(data):
            raise Failure("retained-not-suffix", f"buffer holds {data[:100]!r} which is not a suffix of the {fed} chars fed")
    cutset = sorted({c for c in cuts if 0 < c < len(text)})
    starts = [0] + ends[:-1]
    split = any(any(s < c < e for c in cutset) for s, e in zip(starts, ends))
    return len(pieces), split


def _labels(text, ends, cuts):
    labs = set()
    for c in cuts:
        if not 0 < c < len(text):
            continue
        before = text[:c]
        lt, gt = before.rfind("<"), before.rfind(">")
        if lt > gt:
            seg = before[lt:]
            if seg.startswith("<?"):
                labs.add("cut-in-declaration")
            elif seg.startswith("</"):
                labs.add("cut-in-closing-tag")
            elif '"' in seg or "'" in seg:
                labs.add("cut-in-attributes")
            else:
                labs.add("cut-in-tag-name")
        else:
            labs.add("cut-in-text-or-between")
    return sorted(labs)


def check_cuts(case):
    """case: {"items": [...], "cuts": [int...], "threshold": "max"|int|None}"""
    items = case["items"]
    text, ends, views = buf.render_stream(items)
    cuts = [c % max(1, len(text)) for c in case["cuts"]]
    if case.get("debug"):
        # the same stream with the library's DEBUG logging switched on (an operator's choice that must not change framing)
        from harness.core import library_logging

        with library_logging():
            n, split = run_partition(text, ends, views, cuts, _threshold(case, items))
    else:
        n, split = run_partition(text, ends, views, cuts, _threshold(case, items))
    labs = _labels(text, ends, cuts)
    if any(len(it["spec"].get("children", [])) >= 2 for it in items):
        labs.append("has-2+-children")
    if any(it.get("choices") is not None for it in items):
        labs.append("foreign-spelling")
    labs.append(f"T={case.get('threshold', 2048)}")
    if case.get("debug"):
        labs.append("library-debug-logging-on")
    return Info(nontrivial=split, labels=labs)


def check_block(case):
    """case: {"items": [...], "mode": "all1"|"all2"|"all3"|"charwise", "threshold": ...}"""
    items = case["items"]
    text, ends, views = buf.render_stream(items)
    L = len(text)
    thr = _threshold(case, items)
    mode = case["mode"]
    if mode == "charwise":
        parts = [list(range(1, L))]
    else:
        k = int(mode[3])
        parts = itertools.combinations(range(1, L), k)
    n = nt = 0
    for cuts in parts:
        try:
            _, split = run_partition(text, ends, views, list(cuts), thr)
        except Failure as f:
            f.min_case = {"items": items, "cuts": list(cuts), "threshold": case.get("threshold", 2048)}
            raise
        n += 1
        nt += bool(split)
    return Info(n_eval=n, n_nontrivial=nt, label_counts={f"partitions-{mode}": n, f"T={case.get('threshold', 2048)}": n})


# --------------------------------------------------------------------------------------------
# corpus for the exhaustive sweeps (fixed, small, covers every kind and the awkward characters)


def _m(kind, attrs, children=(), text=None, choices=None, gap=""):
    return {"t": "msg", "spec": {"kind": kind, "attrs": attrs, "text": text, "children": list(children)}, "choices": choices, "gap": gap}


def _p(kind, attrs, text=None):
    return {"kind": kind, "attrs": attrs, "text": text}


def corpus():
    gp = _m("getProperties", {"version": "1.7"})
    gp_f = _m("getProperties", {"version": "1.7", "device": "CAM"}, choices=[0])
    eb = _m("enableBLOB", {"device": "C"}, text="Also", choices=[0])
    msg = _m("message", {"message": "a>b"}, choices=[0])
    msg2 = _m("message", {"device": "d", "message": "x"}, choices=None)
    dele = _m("delProperty", {"device": "C", "name": "N"}, choices=[0, 1, 1])
    ping = _m("pingRequest", {"uid": "1"}, choices=[0])
    st1 = _m("setTextVector", {"device": "C", "name": "T", "state": "Ok"}, [_p("oneText", {"name": "a"}, "x > y & \"z\"")], choices=None)
    st2 = _m("setTextVector", {"device": "C", "name": "T", "state": "Ok"}, [_p("oneText", {"name": "a"}, "1"), _p("oneText", {"name": "b"}, None)], choices=[1, 2, 0, 1])
    sw = _m("newSwitchVector", {"device": "C", "name": "S"}, [_p("oneSwitch", {"name": "a"}, "On"), _p("oneSwitch", {"name": "b"}, "Off")], choices=[3, 2, 1])
    dn = _m("defNumberVector", {"device": "C", "name": "N", "state": "Idle", "perm": "rw", "label": "é<"}, [_p("defNumber", {"name": "n", "format": "%f", "min": "0", "max": "1", "step": "0"}, "0.5")], choices=None)
    sl = _m("setLightVector", {"device": "C", "name": "L", "state": "Alert"}, [_p("oneLight", {"name": "l"}, "Busy")], choices=[0], gap="\n")
    ol = _m("oneLight", {"name": "l"}, text="Ok", choices=[0])
    sb = _m("setBLOBVector", {"device": "C", "name": "B", "state": "Ok"}, [_p("oneBLOB", {"name": "b", "size": "3", "format": ".x"}, "QUJD")], choices=[2, 1], gap=" ")
    # very short messages in the library's own spelling (declaration + newline + element): shorter than the declaration
    tiny = _m("message", {}, choices=None)
    tiny2 = _m("pingReply", {"uid": "1"}, choices=None)
    decl8 = _m("message", {"device": "d"}, choices=[2])  # declaration with encoding="UTF-8"
    # a peer whose XML writer wraps text values in CDATA sections (markup characters travel raw inside)
    cd = _m("setTextVector", {"device": "C", "name": "T", "state": "Ok"}, [_p("oneText", {"name": "a"}, "alt > 30 deg"), _p("oneText", {"name": "b"}, "</oneText> <x/>")], choices=[0])
    cd["spec"]["cdata"] = "force"
    cd2 = _m("message", {"device": "d", "message": "m"}, choices=[1])
    # a compressed frame: the declared size is that of the data (1.25 MiB), the payload on the wire is short
    import base64
    import zlib

    big = _m("setBLOBVector", {"device": "C", "name": "B", "state": "Ok"}, [_p("oneBLOB", {"name": "b", "size": str(1310720), "format": ".fits.z"}, base64.b64encode(zlib.compress(b"\0" * 1310720)).decode())], choices=[0])
    over = _m("newBLOBVector", {"device": "C", "name": "B"}, [_p("oneBLOB", {"name": "b", "size": str(1 << 40), "format": ".z"}, "QUJD")], choices=[0])
    short = [
        [gp], [msg], [eb, ping], [gp_f, msg], [ol, ping], [dele, gp], [msg, msg, msg], [ping, eb, msg],
        [tiny, tiny2, gp], [gp, tiny, tiny], [decl8, tiny2, decl8],
    ]
    medium = [
        [gp, st1], [st2, gp_f], [sw, msg2], [sl, ol, gp], [sb, eb], [dn], [gp, dele, st1, msg], [st1, st2, sw, sl],
        [cd, gp, cd2], [gp, cd], [big, st2, msg], [over, gp_f, ping],
    ]
    return short, medium


@st.composite
def stream_case(draw, max_msgs=8):
    items = draw(st.lists(buf.msg_item(), min_size=1, max_size=max_msgs))
    cuts = draw(st.lists(st.integers(0, 4000), min_size=0, max_size=12))
    thr = draw(st.sampled_from(["max", 2048, None, None]))
    return {"items": items, "cuts": cuts, "threshold": thr, "debug": draw(st.sampled_from([False, False, True]))}


@st.composite
def stream_block(draw, mode):
    items = draw(st.lists(buf.msg_item(max_children=2), min_size=1, max_size=4))
    thr = draw(st.sampled_from(["max", 2048, None]))
    return {"items": items, "mode": mode, "threshold": thr}


READ_SIZES = [1, 7, 100, 512, 1023, 1024, 1024, 1024, 1025, 2048, 3072]


class _RecRouter:
    """Stands in for the Router behind a server-side handler: records what the handler hands over."""

    def __init__(self, sink):
        self.sink = sink
        self.clients = []

    def register_client(self, c):
        self.clients.append(c)

    def unregister_client(self, c):
        if c in self.clients:
            self.clients.remove(c)

    def process_message(self, message, sender=None):
        self.sink(message)


def check_handlers(case):
    """case: {"items": [...], "sizes": [int...], "which": "client"|"client-blobs"|"server"|"tty", "align": bool}"""
    from indi.message import IndiMessage

    from harness import net

    which = case["which"]
    text, ends, views = "", [], []
    for it in case["items"]:
        t, end, v = buf.render_item(it)
        if case.get("align"):
            t = " " * ((-(len(text) + end)) % 1024) + t
            end = t.rindex(">") + 1
        if which == "tty":
            t = t[:end] + "\n"  # a terminal delivers lines
        ends.append(len(text) + end)
        views.append(v)
        text += t
    loop = net.new_loop()
    try:
        delivered = []

        def sink(m):
            if not isinstance(m, IndiMessage):
                raise Failure("callback-non-message", f"{which} handler delivered {m!r}")
            delivered.append(gen.view(m))

        if which in ("client", "client-blobs"):
            from indi.transport.client.tcp import ConnectionHandler

            reader = net.FakeReader(loop)
            h = ConnectionHandler(reader, net.FakeWriter(loop), sink, for_blobs=which == "client-blobs")
        elif which == "server":
            from indi.transport.server.tcp import ConnectionHandler

            reader = net.FakeReader(loop)
            h = ConnectionHandler(reader, net.FakeWriter(loop), _RecRouter(sink))
        else:
            from indi.transport.server.tty import ConnectionHandler

            reader = net.FakeStdin(loop)
            h = ConnectionHandler(_RecRouter(sink), reader, net.FakeStdout(loop))
        thr = h.buffer.max_buffer_size_before_frontal_cleanup
        if thr is not None and max(buf.element_lengths(case["items"])) > thr:
            return Info(nontrivial=False, labels=["skipped-longer-than-threshold"])
        task = loop.create_task(h.wait_for_messages())
        loop.drain()
        sizes = [max(1, int(x)) for x in case["sizes"]] or [1024]
        data = text.encode("latin1")
        fed, i, full_read_end = 0, 0, False
        while fed < len(data):
            n = sizes[i % len(sizes)]
            i += 1
            piece = data[fed:fed + n]
            if which == "tty":
                # whole lines only: extend the piece to the next newline
                j = data.find(b"\n", fed + len(piece) - 1)
                piece = data[fed:(j + 1) if j >= 0 else len(data)]
                reader.feed(piece.decode("latin1"))
            else:
                reader.feed(piece)
            fed += len(piece)
            loop.drain()
            if task.done():
                exc = task.exception()
                raise Failure(f"handler-stops:{which}:{type(exc).__name__ if exc else 'returned'}", f"read loop ended after {fed}/{len(data)} bytes: {exc!r}")
            k = sum(1 for e in ends if e <= fed)
            if fed % 1024 == 0 and fed in ends:
                full_read_end = True
            if delivered != views[:k]:
                kind = "late-or-lost" if len(delivered) < k else ("extra-or-early" if len(delivered) > k else "content-differs")
                raise Failure(
                    f"handlers:{which}:{kind}",
                    f"after {fed}/{len(data)} bytes in chunks {sizes} (align={case.get('align')}): the {which} handler delivered {len(delivered)} messages, "
                    f"{k} are complete; message ends at {ends}",
                )
        reader.feed_eof()
        loop.drain()
        if delivered != views:
            raise Failure(f"handlers:{which}:after-eof", f"delivered {len(delivered)} of {len(views)} messages")
        labs = [which, "aligned" if case.get("align") else "unaligned"]
        if full_read_end:
            labs.append("message-ends-on-1024-boundary-of-a-chunk")
        return Info(nontrivial=len(data) > min(sizes) or full_read_end, labels=labs)
    finally:
        loop.shutdown()


@st.composite
def handler_case(draw):
    items = draw(st.lists(buf.msg_item(), min_size=1, max_size=5))
    return {
        "items": items,
        "sizes": draw(st.lists(st.sampled_from(READ_SIZES), min_size=1, max_size=5)),
        "which": draw(st.sampled_from(["client", "client-blobs", "server", "tty"])),
        "align": draw(st.booleans()),
    }


SUBCHECKS = {
    "handlers": check_handlers,
    "cuts1": check_block, "cuts2": check_block, "cuts3": check_block, "charwise": check_block,
    "random": check_cuts, "cuts1-hyp": check_block, "charwise-hyp": check_block,
}
THRESHOLDS = ["max", 2048, None]


def run(ctx):
    short, medium = corpus()
    blocks1 = [{"items": s, "mode": "all1", "threshold": t} for s in short + medium for t in THRESHOLDS]
    n = ctx.each("cuts1", blocks1, check_block, stop_after=4, timeout=150)
    blocksc = [{"items": s, "mode": "charwise", "threshold": t} for s in short + medium for t in THRESHOLDS]
    ctx.each("charwise", blocksc, check_block, stop_after=4, timeout=150)
    two = [s for s in short + medium if len(buf.render_stream(s)[0]) <= 300]
    if ctx.tier == "quick":
        two = [s for s in two if len(buf.render_stream(s)[0]) <= 150]
    blocks2 = [{"items": s, "mode": "all2", "threshold": t} for s in two for t in THRESHOLDS]
    ctx.each("cuts2", blocks2, check_block, stop_after=4, timeout=ctx.scale(300, 1200))
    ctx.exhaustive["corpus-cuts"] = {
        "complete": True,
        "n_streams": len(short + medium),
        "bound": "every 1-cut and char-by-char partition of 19 corpus streams x 3 thresholds; every 2-cut partition of the streams <= 300 chars (<= 150 in quick)"
        + ("; every 3-cut partition of the streams <= 70 chars" if ctx.tier == "thorough" else ""),
    }
    if ctx.tier == "thorough":
        three = [s for s in short if len(buf.render_stream(s)[0]) <= 70]
        blocks3 = [{"items": s, "mode": "all3", "threshold": t} for s in three for t in THRESHOLDS]
        ctx.each("cuts3", blocks3, check_block, stop_after=4, timeout=3000)
    ctx.hyp("random", stream_case(), check_cuts, ctx.scale(400, 12000))
    ctx.hyp("handlers", handler_case(), check_handlers, ctx.scale(300, 6000))
    ctx.hyp("cuts1-hyp", stream_block("all1"), check_block, ctx.scale(40, 1500), timeout=300)
    ctx.hyp("charwise-hyp", stream_block("charwise"), check_block, ctx.scale(40, 1500), timeout=300)
