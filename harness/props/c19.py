"""C19 - Outbound messages are whole and in order under every I/O schedule."""
from __future__ import annotations

import itertools

from hypothesis import strategies as st

from harness import gen, net
from harness.core import Failure, Info

ID = "C19"
LEVEL = "exploration"
SHARDS = {"quick": 8, "thorough": 16}
RULE = (
    "'explore': for every configuration of 1-3 connections (TCP server handlers and/or the TTY handler on one Router, or the "
    "client-side handler), burst size n in 1..3 (quick) / 1..5 (thorough; <= 3 for three connections), routing pattern (all "
    "back-to-back in one loop iteration, or a loop iteration between messages) and optional stalled connection, the Explorer "
    "enumerates EVERY completion order of the pending write / flush / drain awaitables of the fake streams (stateless DFS, scenario "
    "re-executed per choice prefix). 'bursts': Hypothesis draws message contents (full grammar), burst sizes up to 6, connection "
    "mixes and random release orders. Oracle: each connection's output equals the concatenation of the serialized routed messages in "
    "routing order (whole, not interleaved, ordered); with a stalled connection all other connections still complete and "
    "process_message returns; 'interleave' additionally makes routing itself and single loop iterations scheduler choices (route "
    "next message / run exactly one loop iteration / complete one awaitable without running the loop), enumerated up to a depth "
    "bound, so that races between a completion's wake-up and the next routed message are reached; "
    "process_message returns. One message of a burst may be long (3.3 kB) or huge (150 kB: beyond any plausible internal slice size). "
    "'busy-pipe' (TTY on a non-blocking pipe: one write call refused with BlockingIOError, nothing written: what reaches the channel is a selection of the routed messages, each whole, in routing order, everything before the refusal included); 'long-stall': one connection never completes its first write while 3000 (quick) / 20000 (thorough) messages are routed; the others "
    "must receive all of them. Each explored schedule is one evaluation; non-trivial: some connection had >= 2 unfinished sends at a "
    "choice point. Schedules of one configuration are distinct by construction."
)
ASSUMPTIONS = [
    "fake streams: write() on a StreamWriter is synchronous, drain() may complete at any later point; aiofiles write()/flush() "
    "calls that are outstanding at the same time may take effect in any order (thread pool)",
]


def fixed_messages(n, long=False):
    from indi import message
    from indi.message import one_parts

    out = []
    for i in range(n):
        if long and i == 0:
            # longer than any plausible single write / read size
            # ("huge": longer than any plausible internal slice size as well - 150 kB, a mid-sized BLOB message)
            reps = 15000 if long == "huge" else 330
            out.append(message.SetTextVector(device="D", name="P0", state="Ok", children=(one_parts.OneText(name="a", value="L" + "0123456789" * reps + "R"),)))
            continue
        if i % 3 == 0:
            out.append(message.SetTextVector(device="D", name=f"P{i}", state="Ok", children=(one_parts.OneText(name="a", value=f"v{i}"), one_parts.OneText(name="b", value="x>y"))))
        elif i % 3 == 1:
            out.append(message.Message(device="D", message=f"note {i}"))
        else:
            out.append(message.DelProperty(device="D", name=f"P{i}"))
    return out


class Rig:
    def __init__(self, conns, stalled):
        from indi.routing import Router
        from indi.transport.client import tcp as client_tcp
        from indi.transport.server import tcp as server_tcp
        from indi.transport.server import tty as server_tty

        self.loop = net.new_loop()
        self.router = Router()
        self.conns = []
        server_tcp.ConnectionHandler.connections.clear()
        for i, kind in enumerate(conns):
            c = {"kind": kind, "stalled": stalled == i}
            if kind == "tcp":
                c["reader"], c["writer"] = net.FakeReader(self.loop), net.FakeWriter(self.loop)
                c["writer"].held = True
                c["handler"] = server_tcp.ConnectionHandler(c["reader"], c["writer"], self.router)
            elif kind == "tty":
                c["stdin"], c["stdout"] = net.FakeStdin(self.loop), net.FakeStdout(self.loop)
                c["stdout"].held = True
                c["handler"] = server_tty.ConnectionHandler(self.router, c["stdin"], c["stdout"])
            elif kind == "cli":
                c["reader"], c["writer"] = net.FakeReader(self.loop), net.FakeWriter(self.loop)
                c["writer"].held = True
                c["handler"] = client_tcp.ConnectionHandler(c["reader"], c["writer"], lambda m: None)
            else:
                raise AssertionError(kind)
            self.conns.append(c)

    def route(self, msgs, gaps):
        async def go():
            for i, m in enumerate(msgs):
                self.router.process_message(m, sender=None)
                for c in self.conns:
                    if c["kind"] == "cli":
                        c["handler"].send_message(m)
                if gaps[i % len(gaps)] if gaps else False:
                    for _ in range(3):
                        import asyncio

                        await asyncio.sleep(0)

        self.loop.run_until_complete(go())
        self.loop.drain()

    def pending(self):
        out = []
        for ci, c in enumerate(self.conns):
            if c["stalled"]:
                continue
            if c["kind"] in ("tcp", "cli"):
                for k, fut in enumerate(c["writer"].pending):
                    out.append((ci, k))
            else:
                for k in range(len(c["stdout"].pending)):
                    out.append((ci, k))
        return out

    def release(self, ci, k):
        c = self.conns[ci]
        if c["kind"] in ("tcp", "cli"):
            fut = c["writer"].pending.pop(k)
            if not fut.done():
                fut.set_result(None)
        else:
            c["stdout"].release(k)
        self.loop.drain()

    def output(self, c):
        if c["kind"] in ("tcp", "cli"):
            return bytes(c["writer"].all)
        return c["stdout"].out.encode("latin1")

    def close(self):
        self.loop.shutdown()


def run_schedule(conns, msgs_fn, gaps, stalled, choose):  # noqa: C901
    """One execution under the schedule given by `choose`. Returns nontrivial flag."""
    rig = Rig(conns, stalled)
    try:
        msgs = msgs_fn()
        rig.route(msgs, gaps)
        want = b"".join(m.to_string() for m in msgs)
        nt = False
        steps = 0
        while True:
            pend = rig.pending()
            if not pend:
                break
            if steps == 0 and len(msgs) >= 2:
                nt = True  # every connection still has >= 1 unfinished send and more queued
            k = choose(len(pend))
            rig.release(*pend[k])
            steps += 1
            if steps > max(10000, 20 * len(msgs) * len(conns)):
                raise Failure("schedule-does-not-end", f"more than {max(10000, 20 * len(msgs) * len(conns))} releases")
        for ci, c in enumerate(rig.conns):
            out = rig.output(c)
            if c["stalled"]:
                # a stalled connection delays only itself: what it has emitted so far is a prefix of whole messages
                if not want.startswith(out):
                    raise Failure(f"stalled-output-corrupt:{c['kind']}", f"{out!r}")
                continue
            if out != want:
                got_tags = [e.tag + ":" + (e.get("name") or e.get("message") or "") for e in _split(out)]
                want_tags = [e.tag + ":" + (e.get("name") or e.get("message") or "") for e in _split(want)]
                kind = "reordered" if sorted(got_tags) == sorted(want_tags) else ("incomplete" if len(out) < len(want) else "corrupt")
                raise Failure(
                    f"output-{kind}:{c['kind']}{':other-stalled' if stalled is not None else ''}",
                    f"connection {ci} ({c['kind']}) of {conns}, stalled={stalled}, gaps={gaps}: wrote {got_tags}, routed {want_tags}",
                )
        if rig.loop._unhandled:
            ctxs = [str(c.get("exception") or c.get("message")) for c in rig.loop._unhandled]
            raise Failure("send-task-exception", f"{ctxs[:3]}")
        return nt
    finally:
        rig.close()


def _split(data):
    try:
        return gen.split_elements(data.decode("latin1"))
    except Exception:  # noqa
        return []


def check_config(case):
    """case: {"conns": [...], "n": int, "gaps": [bool...], "stalled": int|None, "max_runs": int}; explores all schedules"""
    conns, n, gaps, stalled = case["conns"], case["n"], case.get("gaps") or [False], case.get("stalled")
    counters = {"n": 0, "nt": 0}

    def scenario(choose, trace):
        try:
            nt = run_schedule(conns, lambda: fixed_messages(n, case.get("long", False)), gaps, stalled, choose)
        except Failure as f:
            f.min_case = {"conns": conns, "n": n, "gaps": gaps, "stalled": stalled, "choices": [c for c, _ in trace], "long": case.get("long", False)}
            f.min_sub = "schedule"
            raise
        counters["n"] += 1
        counters["nt"] += bool(nt)

    ex = net.Explorer(scenario, max_runs=case.get("max_runs", 300000))
    ex.explore()
    return Info(n_eval=counters["n"], n_nontrivial=counters["nt"], label_counts={"+".join(conns): counters["n"], "truncated": int(ex.truncated)})


def check_schedule(case):
    """One explicit schedule: {"conns","n"| "msgs": [spec...], "gaps","stalled","choices":[...]}"""
    ch = gen.Chooser(case.get("choices") or [0])
    if case.get("msgs"):
        msgs_fn = lambda: [gen.build(s) for s in case["msgs"]]  # noqa: E731
    else:
        msgs_fn = lambda: fixed_messages(case["n"], case.get("long", False))  # noqa: E731
    nt = run_schedule(case["conns"], msgs_fn, case.get("gaps") or [False], case.get("stalled"), lambda n: ch.next(n))
    return Info(nontrivial=nt, labels=["+".join(case["conns"])] + (["stalled"] if case.get("stalled") is not None else []))


def run_interleaved(conns, n, choose, max_steps=40, long=False):
    """Fine-grained schedule: at every choice point the scheduler may route the next message (inside one loop
    iteration), run exactly one loop iteration, or complete one pending awaitable WITHOUT running the loop."""
    rig = Rig(conns, None)
    try:
        msgs = fixed_messages(n, long)
        routed = 0
        steps = 0
        trace = []
        while True:
            pend = rig.pending()
            options = []
            if routed < n:
                options.append(("R", None))
            if rig.loop.busy:
                options.append(("Y", None))
            for p in pend:
                options.append(("C", p))
            if not options:
                break
            steps += 1
            if steps > max_steps:
                # bound reached: finish deterministically (route the rest, then drain / release in order)
                act = options[0]
            else:
                act = options[choose(len(options))]
            trace.append(act[0])
            if act[0] == "R":
                m = msgs[routed]
                routed += 1

                def route(m=m):
                    rig.router.process_message(m, sender=None)
                    for c in rig.conns:
                        if c["kind"] == "cli":
                            c["handler"].send_message(m)

                rig.loop.call_soon(route)
                rig.loop.step()
            elif act[0] == "Y":
                rig.loop.step()
            else:
                ci, k = act[1]
                c = rig.conns[ci]
                if c["kind"] in ("tcp", "cli"):
                    fut = c["writer"].pending.pop(k)
                    if not fut.done():
                        fut.set_result(None)
                else:
                    so = c["stdout"]
                    kind, data, fut = so.pending.pop(k)
                    if kind == "write":
                        so.unflushed += data
                    else:
                        so.out += so.unflushed
                        so.unflushed = ""
                    if not fut.done():
                        fut.set_result(None)
            if steps > 2000:
                raise Failure("schedule-does-not-end", "".join(trace[:60]))
        want = b"".join(m.to_string() for m in msgs)
        for ci, c in enumerate(rig.conns):
            out = rig.output(c)
            if out != want:
                got_tags = [e.tag + ":" + (e.get("name") or e.get("message") or "") for e in _split(out)]
                want_tags = [e.tag + ":" + (e.get("name") or e.get("message") or "") for e in _split(want)]
                kind = "reordered" if sorted(got_tags) == sorted(want_tags) else ("incomplete" if len(out) < len(want) else "corrupt")
                raise Failure(f"interleaved-output-{kind}:{c['kind']}", f"{conns} n={n} schedule {''.join(trace)}: wrote {got_tags}, routed {want_tags}")
        if rig.loop._unhandled:
            raise Failure("send-task-exception", f"{[str(c.get('exception') or c.get('message')) for c in rig.loop._unhandled][:3]}")
        return "".join(trace)
    finally:
        rig.close()


def check_interleave(case):
    """case: {"conns": [...], "n": int, "max_steps": int, "choices": [...]?} - all fine-grained schedules (or one, if choices given)"""
    conns, n = case["conns"], case["n"]
    if case.get("choices") is not None:
        ch = gen.Chooser(case["choices"])
        run_interleaved(conns, n, lambda k: ch.next(k), case.get("max_steps", 14), case.get("long", False))
        return Info(nontrivial=n >= 2, labels=["+".join(conns)])
    counters = {"n": 0}

    def scenario(choose, trace):
        try:
            run_interleaved(conns, n, choose, case.get("max_steps", 14), case.get("long", False))
        except Failure as f:
            f.min_case = {"conns": conns, "n": n, "max_steps": case.get("max_steps", 14), "choices": [c for c, _ in trace], "long": case.get("long", False)}
            raise
        counters["n"] += 1

    ex = net.Explorer(scenario, max_runs=case.get("max_runs", 60000))
    ex.explore()
    return Info(n_eval=counters["n"], n_nontrivial=counters["n"] if n >= 2 else 0, label_counts={"interleave-" + "+".join(conns): counters["n"], "interleave-truncated": int(ex.truncated)})


def check_long_stall(case):
    """One connection never completes its first write while thousands of messages are routed: however long that lasts, it
    delays only itself - every other connection gets every message, whole and in order (first-come release order).
    case: {"conns": [...], "n": int, "stalled": i, "gaps": [...]}"""
    nt = run_schedule(case["conns"], lambda: fixed_messages(case["n"]), case.get("gaps", [False]), case["stalled"], lambda k: 0)
    return Info(nontrivial=bool(nt), labels=[f"n={case['n']}", "+".join(case["conns"])])


def check_busy_pipe(case):
    """The TTY channel on a non-blocking pipe that is momentarily full: one write call is refused with BlockingIOError and
    nothing written (for the caller: that write is late, or lost). Whatever the handler does about it, the messages that do
    reach the channel are whole and in the order they were routed. case: {"n": int, "fail": i, "gaps": [...]}"""
    import errno

    rig = Rig(["tty"], None)
    try:
        c = rig.conns[0]
        c["stdout"].held = False
        c["stdout"].fail_writes[case["fail"] % case["n"]] = BlockingIOError(errno.EAGAIN, "write could not complete without blocking", 0)
        msgs = fixed_messages(case["n"])
        rig.route(msgs, case.get("gaps", [False]))
        for _ in range(40):  # (a handler may wait before it tries again)
            rig.loop.advance_to(rig.loop.time() + 0.25)
            rig.loop.drain()
        out = rig.output(c).decode("latin1")
        texts = [m.to_string().decode("latin1") for m in msgs]
        f = case["fail"] % case["n"]
        # acceptable: any selection of the routed messages, each whole, in routing order (the refused one - or, if the
        # handler gives the connection up, everything from there on - may be missing)
        pos = 0
        for t in texts:
            if out.startswith(t, pos):
                pos += len(t)
        if pos != len(out) or not out.startswith("".join(texts[:f])):  # (what was routed before the refusal had been written)
            pos = [(out.find(t), i) for i, t in enumerate(texts)]
            raise Failure("busy-pipe:order-or-wholeness-lost-after-a-refused-write", f"{case}: write {f} of {case['n']} was refused once; offsets at which the routed messages 0..{case['n'] - 1} appear on the channel (-1 = not whole): {pos}")
        return Info(nontrivial=case["n"] >= 2 and f < case["n"] - 1, labels=[f"n={case['n']}"])
    finally:
        rig.close()


SUBCHECKS = {"busy-pipe": check_busy_pipe, "long-stall": check_long_stall, "explore": check_config, "schedule": check_schedule, "bursts": check_schedule, "interleave": check_interleave}


def configs(tier):
    nmax = 4 if tier == "quick" else 5
    singles = [["tcp"], ["tty"], ["cli"]]
    pairs = [["tcp", "tcp"], ["tcp", "tty"], ["cli", "tcp"]]
    triples = [["tcp", "tcp", "tty"], ["tcp", "tcp", "tcp"]]
    for conns in singles + pairs + triples:
        for n in range(1, nmax + 1):
            if len(conns) == 3 and n > (2 if tier == "quick" else 3):
                continue
            if len(conns) == 2 and "tty" in conns and n > 4:
                continue
            for gaps in ([False], [True], [True, False]):
                if gaps != [False] and n == 1:
                    continue
                for stalled in [None] + list(range(len(conns))):
                    if stalled is not None and len(conns) == 1:
                        continue
                    yield {"conns": conns, "n": n, "gaps": gaps, "stalled": stalled}
                    if 2 <= n <= 3 and len(conns) <= 2:
                        yield {"conns": conns, "n": n, "gaps": gaps, "stalled": stalled, "long": True}
                    if n == 2 and len(conns) <= 2 and stalled is None:
                        yield {"conns": conns, "n": n, "gaps": gaps, "stalled": stalled, "long": "huge"}


burst_case = st.fixed_dictionaries(
    {
        "conns": st.lists(st.sampled_from(["tcp", "tcp", "tty", "cli"]), min_size=1, max_size=3).filter(lambda c: c.count("tty") <= 1),
        "msgs": st.lists(
            gen.msg_spec(kinds=[k for k in gen.FROM_DEVICE if k != "setBLOBVector"], max_children=2)
            | st.integers(1100, 5000).map(lambda k: {"kind": "message", "attrs": {"device": "D", "message": "x" * k}, "text": None, "children": []}),
            min_size=1, max_size=6),
        "gaps": st.lists(st.booleans(), min_size=1, max_size=4),
        "stalled": st.none() | st.integers(0, 2),
        "choices": st.lists(st.integers(0, 11), max_size=30),
    }
).map(lambda c: {**c, "stalled": None if c["stalled"] is None or len(c["conns"]) < 2 else c["stalled"] % len(c["conns"])})


def run(ctx):
    cnt = ctx.each("explore", configs(ctx.tier), check_config, stop_after=4, timeout=ctx.scale(300, 1800))
    ctx.exhaustive["explore"] = {"complete": True, "n_configs": cnt, "bound": "every release order of pending awaitables for each (connections, burst size, routing pattern, stalled connection) configuration"}
    inter = [{"conns": c, "n": n, "max_steps": ms} for c, n, ms in (
        (["tcp"], 2, 12), (["tcp"], 3, 11), (["tty"], 2, 12), (["tty"], 3, 10), (["cli"], 3, 11), (["tcp", "tcp"], 2, 9),
    )]
    inter += [{"conns": c, "n": 2, "max_steps": 12, "long": True} for c in (["tcp"], ["tty"], ["cli"])]
    inter += [{"conns": c, "n": 2, "max_steps": 8, "long": "huge"} for c in (["tcp"], ["cli"])]
    if ctx.tier == "thorough":
        inter += [{"conns": c, "n": n, "max_steps": ms, "max_runs": 400000} for c, n, ms in ((["tcp"], 4, 13), (["cli"], 4, 13), (["tty"], 3, 13), (["tcp", "tty"], 2, 11))]
    cnt2 = ctx.each("interleave", inter, check_interleave, stop_after=3, timeout=ctx.scale(600, 3000))
    ctx.exhaustive["interleave"] = {"complete": True, "n_configs": cnt2, "bound": "every sequence of {route next message, run one loop iteration, complete one pending awaitable} up to max_steps choice points per configuration (then finished deterministically); a configuration whose schedule count exceeds max_runs is marked truncated in coverage.classes"}
    ctx.hyp("bursts", burst_case, check_schedule, ctx.scale(200, 5000))
    n_long = ctx.scale(3000, 20000)
    longs = [{"conns": c, "n": n_long, "stalled": s_, "gaps": g} for c, s_ in ((["tcp", "tcp", "tcp"], 0), (["tcp", "tcp", "tty"], 1), (["tty", "tcp"], 0)) for g in ([False], [True, False])]
    ctx.each("busy-pipe", [{"n": n_, "fail": f_, "gaps": g_} for n_ in (1, 2, 3, 5) for f_ in range(n_) for g_ in ([False], [True])], check_busy_pipe, stop_after=2, timeout=60)
    ctx.each("long-stall", longs, check_long_stall, stop_after=2, timeout=ctx.scale(300, 1200))
