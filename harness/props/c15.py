"""C15 - The client mirrors any server's property stream faithfully and survives it."""
from __future__ import annotations

from hypothesis import strategies as st

from harness import gen, net, refclient, streams
from harness.core import Failure, Info, lib_exception_failure

ID = "C15"
LEVEL = "exploration"
SHARDS = {"quick": 8, "thorough": 16}
RULE = (
    "streams of <= 40 def*/set*/delProperty/message/ping/getProperties messages over a small universe (3 device names x 3 property "
    "names whose kind varies x 4 element names - as they are, or renamed as a whole to names with glob characters and blanks, or to Latin-1 names sent as raw bytes -) in canonical or foreign XML spelling; some messages are verbatim repeats of earlier "
    "ones, some updates are aimed at an earlier definition (same device, property, kind, subset of its elements), and BLOB elements "
    "may declare a size that is that of uncompressed data (.z) or contradicts the payload (then the client may take it or leave it, "
    "but must not choke on it); in 'direct' the application also writes (assign + submit) at arbitrary positions, which must leave the "
    "mirror untouched. 'direct': each message is parsed and handed to "
    "BaseClient.process_message, the client's public view is compared with the reference interpreter (harness/refclient.py) after "
    "EVERY message; 'stream': the same streams as fragmented bytes through the real client ConnectionHandler.wait_for_messages "
    "task on fake streams (control mode and BLOB mode), compared at the end, the receive task must still be alive and a sentinel "
    "definition sent last must be mirrored. Non-trivial: the stream contains >= 1 redefinition-or-deletion of an existing property and "
    ">= 1 message about an unknown device/property/element; distinct = canonical JSON."
)
ASSUMPTIONS = [
    "a device left with zero properties may or may not be listed; after whole-device deletion 'absent or empty' is accepted",
    "BLOB payloads in generated streams are valid base64 with the right size; defBLOB carries no text",
    "an empty BLOB payload is equivalent to no BLOB",
]


def make_client():
    from indi.client.client import BaseClient

    class RecordingClient(BaseClient):
        def __init__(self):
            super().__init__()
            self.sent = []

        def send_message(self, msg):
            self.sent.append(msg)

    return RecordingClient()


def diff_views(got, want):
    if got == want:
        return None
    for dn in sorted(set(got) | set(want)):
        if dn not in got:
            return f"device-missing", f"device {dn!r} missing; expected {want[dn]}"
        if dn not in want:
            return f"device-extra", f"device {dn!r} present with {got[dn]}; expected absent"
        for pn in sorted(set(got[dn]) | set(want[dn])):
            if pn not in got[dn]:
                return "property-missing", f"{dn}.{pn} missing; expected {want[dn][pn]}"
            if pn not in want[dn]:
                return "property-extra", f"{dn}.{pn} present {got[dn][pn]}; expected absent"
            g, w = got[dn][pn], want[dn][pn]
            if g != w:
                names = ["kind", "state", "label", "group", "elements"]
                for i, nme in enumerate(names):
                    if g[i] != w[i]:
                        return f"property-differs:{nme}", f"{dn}.{pn} {nme}: got {g[i]!r}, expected {w[i]!r}"
    return "differs", "views differ"


def stream_labels(items):
    ref = refclient.RefClient()
    redef = unknown = 0
    labels = set()
    for it in items:
        s = it["spec"]
        k, a = s["kind"], s["attrs"]
        dev = ref.devices.get(a.get("device"))
        if k.startswith("def"):
            if dev is not None and a["name"] in dev:
                redef += 1
                labels.add("redefinition" + ("-other-kind" if dev[a["name"]]["kind"] != k[3:-6] else ""))
        elif k.startswith("set"):
            prop = dev.get(a["name"]) if dev else None
            if prop is None:
                unknown += 1
                labels.add("set-unknown-target")
            elif prop["kind"] != k[3:-6]:
                unknown += 1
                labels.add("set-kind-mismatch")
            else:
                names = [c["attrs"]["name"] for c in s["children"]]
                if any(n not in prop["elements"] for n in names):
                    unknown += 1
                    labels.add("set-unknown-element")
                if set(names) < set(prop["elements"]):
                    labels.add("partial-update")
                if k == "setBLOBVector" and any(not c.get("text") for c in s["children"]):
                    labels.add("empty-blob-payload")
        elif k == "delProperty":
            if a.get("name") is None:
                labels.add("delete-device")
                if dev:
                    redef += 1
            elif dev is not None and a["name"] in dev:
                redef += 1
                labels.add("delete-property")
            else:
                unknown += 1
        ref.apply(s)
    return redef >= 1 and unknown >= 1, sorted(labels)


def check_direct(case):
    """case: {"items": [{"spec", "choices"}...]}"""
    case = streams.rename_case(case)
    client = make_client()
    ref = refclient.RefClient()
    for i, it in enumerate(case["items"]):
        msg = streams.to_library(it)
        for wr in case.get("writes", []):
            # the application sends a request in the middle of the stream: the mirror only follows the server
            if wr["at"] % len(case["items"]) == i:
                try:
                    what = refclient.client_write(client, wr["k"], submit=wr.get("submit", True))
                except Exception as e:  # noqa
                    f = lib_exception_failure(e, "client-write")
                    raise Failure(f.sig, f"before message {i}: {f.msg}")
                if what is not None:
                    d = diff_views(refclient.library_view(client), ref.view())
                    if d:
                        raise Failure(f"client-write:mirror-changed:{d[0]}", f"before message {i}: writing {what}: {d[1]}")
        try:
            client.process_message(msg)
        except Exception as e:  # noqa
            f = lib_exception_failure(e, f"process_message:{it['spec']['kind']}")
            raise Failure(f.sig, f"message {i} {it['spec']}: {f.msg}")
        ref.apply(it["spec"])
        lv = refclient.library_view(client)
        ref.resolve(lv)
        d = diff_views(lv, ref.view())
        if d:
            raise Failure(f"mirror:{d[0]}:after-{it['spec']['kind'][:3]}{'-noname' if it['spec']['kind'] == 'delProperty' and 'name' not in it['spec']['attrs'] else ''}", f"after message {i} {it['spec']}: {d[1]}")
    nt, labels = stream_labels(case["items"])
    return Info(nontrivial=nt, labels=labels)


SENTINEL = {"kind": "defTextVector", "attrs": {"device": "SENTINEL", "name": "LAST", "state": "Ok", "perm": "ro"}, "text": None,
            "children": [{"kind": "defText", "attrs": {"name": "s"}, "text": "end"}]}


def check_stream(case):
    """case: {"items": [...], "frag": [ints], "for_blobs": bool}"""
    case = streams.rename_case(case)
    from indi.transport.client.tcp import ConnectionHandler

    loop = net.new_loop()
    try:
        client = make_client()
        reader, writer = net.FakeReader(loop), net.FakeWriter(loop)
        handler = ConnectionHandler(reader, writer, client.process_message, for_blobs=case.get("for_blobs", False))
        task = loop.create_task(handler.wait_for_messages())
        loop.drain()
        ref = refclient.RefClient()
        # (a peer that writes Latin-1 says so)
        data = b'<?xml version="1.0" encoding="ISO-8859-1"?>\n' if case.get("rename") == 3 else b""
        for it in case["items"] + [{"spec": SENTINEL, "choices": None}]:
            data += streams.to_wire(it, latin1=case.get("rename") == 3)
            ref.apply(it["spec"])
        frag = case.get("frag") or [1024]
        i = k = 0
        while i < len(data):
            n = max(1, frag[k % len(frag)])
            k += 1
            reader.feed(data[i:i + n])
            i += n
            loop.drain()
            if task.done():
                break
        if task.done():
            exc = task.exception() if not task.cancelled() else None
            if exc is not None:
                f = lib_exception_failure(exc, "receive-loop-died")
                raise Failure(f.sig, f"wait_for_messages ended after {i}/{len(data)} bytes: {f.msg}")
            raise Failure("receive-loop-ended", f"wait_for_messages returned after {i}/{len(data)} bytes without EOF")
        lv = refclient.library_view(client)
        ref.resolve(lv)
        d = diff_views(lv, ref.view())
        if d:
            raise Failure(f"stream-mirror:{d[0]}", f"frag={frag[:6]} for_blobs={case.get('for_blobs')}: {d[1]}")
        nt, labels = stream_labels(case["items"])
        labels.append("blob-mode" if case.get("for_blobs") else "control-mode")
        return Info(nontrivial=nt and k >= 2, labels=labels)
    finally:
        loop.shutdown()


direct_case = st.fixed_dictionaries({
    "items": streams.stream(40),
    "writes": st.lists(st.fixed_dictionaries({"at": st.integers(0, 40), "k": st.integers(0, 30), "submit": st.booleans()}), max_size=3),
    "rename": st.sampled_from([0, 0, 0, 1, 2]),
})
stream_case = st.fixed_dictionaries({"rename": st.sampled_from([0, 0, 0, 1, 2, 3, 3]), "items": streams.stream(25), "frag": st.lists(st.sampled_from([1, 2, 3, 7, 64, 1024]), min_size=1, max_size=4), "for_blobs": st.booleans()})

SUBCHECKS = {"direct": check_direct, "stream": check_stream}


def run(ctx):
    ctx.hyp("direct", direct_case, check_direct, ctx.scale(800, 8000))
    ctx.hyp("stream", stream_case, check_stream, ctx.scale(300, 3000))
