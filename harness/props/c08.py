"""C08 - BLOB payloads arrive bit-exact in both directions and never stall a link."""
from __future__ import annotations

import base64

from hypothesis import strategies as st

from harness import gen, net, session, stack
from harness.core import Failure, Info, lib_exception_failure

ID = "C08"
LEVEL = "exploration"
SHARDS = {"quick": 8, "thorough": 16}
RULE = (
    "'sizes': exhaustive sweep of payload lengths 0..64 plus every length in windows around the points where the base64 text / the "
    "whole message crosses the 1024-byte read size and the 2048-character threshold (quick), 0..1700 (thorough), contents from a "
    "length-dependent pattern covering all 256 byte values, in both directions (driver -> Client over the dedicated BLOB connection; "
    "Client -> driver upload), under read fragmentations {1024, 1, mixed}; 'matrix': Hypothesis payloads/formats/fragmentations x "
    "observers with every policy {unset, Never, Also, Only} of two kinds (a single-connection library client, a raw peer whose inbound "
    "bytes are inspected) x BLOB kinds {complete, empty, unset-but-published}; 'large' (thorough): 100 kB - 2 MB payloads over the BLOB "
    "connection; a third driver of the same server snoops DEV with BLOBs enabled (in-process snooping client, registered before the "
    "network clients) and must hold the same payload; 'burst': 2-3 BLOBs (incl. 70 kB and 150 kB, i.e. messages > 64 KiB) and a text update published back-to-back "
    "while every drain() of the fake transports suspends for one loop iteration (back-pressure): a raw peer with policy Also must "
    "receive every element whole, in order, bit-exact; 'refill': one BLOB object around a bytearray that is refilled in place and "
    "published / uploaded again (same and different lengths); 'compressed': payloads that really are zlib streams under '.z' / '.fits.z' "
    "formats (and non-zlib bytes under them), both directions. Oracle: observers that enabled BLOBs hold identical bytes, format and length; the others' inbound byte stream "
    "contains no setBLOBVector and their mirror no payload; an upload reaches the driver element identically; a sentinel text update "
    "sent after the BLOB reaches every client whose policy admits text (nothing stalls); every Buffer.process call terminates. "
    "Non-trivial: payload non-empty and the message is longer than one 1024-byte read, or some observer has a policy other than "
    "unset. Sizes of a sweep are distinct by construction."
)
ASSUMPTIONS = [
    "known finding D26: on a link whose receive buffer has the 2048 junk threshold enabled (server side; single-connection client) a "
    "BLOB element longer than the threshold may be discarded as junk - matched on that necessary condition only",
    "zero-length payload is equivalent to no BLOB (except that an explicitly published empty BLOB keeps its format)",
]

THRESHOLD = 2048


def payload(n, seed=0):
    return bytes((i * 7 + seed + n) % 256 for i in range(n))


class SingleClient:
    """A library client on ONE connection (thresholded receive buffer), policy set by hand."""

    def __init__(self, st_, policy, frag):
        from indi import message
        from indi.client.client import BaseClient
        from indi.transport.client.tcp import ConnectionHandler

        outer = self

        class C(BaseClient):
            def send_message(self, msg):
                outer.handler.send_message(msg)

            def blob_handshake(self, device):
                pass  # this client manages its policy itself

        self.st = st_
        self.link = st_.net.open_server_link(frag_c2s=[1024], frag_s2c=frag)
        self.client = C()
        self.handler = ConnectionHandler(self.link.a_reader, self.link.a_writer, self.client.process_message, for_blobs=False)
        self.task = st_.loop.create_task(self.handler.wait_for_messages())
        self.policy = policy

        def hello():
            self.client.send_message(message.GetProperties(version="1.7"))
            if policy is not None:
                self.client.send_message(message.EnableBLOB(device="DEV", value=policy))

        st_.in_loop(hello)


def set_blob_length(payload_bytes, fmt, tag="setBLOBVector"):
    """Length of the serialized element as the library emits it (from '<tag' to its closing '>')."""
    from indi import message
    from indi.message import one_parts

    part = one_parts.OneBLOB(name="A", size=len(payload_bytes), format=fmt, value=base64.b64encode(payload_bytes).decode())
    if tag == "setBLOBVector":
        m = message.SetBLOBVector(device="DEV", name="BLB", state="Ok", timeout=0, timestamp="2026-10-02T00:00:00.000000", children=(part,))
    else:
        m = message.NewBLOBVector(device="DEV", name="BLB", timestamp="2026-10-02T00:00:00.000000", children=(part,))
    s = m.to_string().decode("latin1")
    return len(s) - s.index("<" + tag) - 1


def run_blob(case):
    """case: {"dir": "down"|"up", "len": int, "seed": int, "fmt": str, "kind": "complete"|"empty"|"unset",
              "frags": {...}, "observers": [{"type": "single"|"raw", "policy": None|str, "frag": [...]}]}"""
    from indi.device import values

    n = case["len"]
    kind = case.get("kind", "complete")
    data = payload(n, case.get("seed", 0)) if kind in ("complete", "zlib") else b""
    if kind == "zlib":
        # a payload that really is a zlib stream (what a '.z' format announces); its declared size is its own length
        import zlib

        data = zlib.compress(data)
        kind = "complete"
    fmt = case.get("fmt", ".bin")
    st_ = None
    try:
        # a third driver of the same server follows DEV and wants its BLOBs (in-process snooping client, registered first)
        st_ = stack.Stack([session.SIMPLE_SPEC, session.SECOND_SPEC, session.SNOOPER_SPEC], case.get("frags"), snoopers=[(2, "DEV", "Also")])
        snooper = st_.snoops[0]
        drv = st_.dep.drivers[0]
        drv2 = st_.dep.drivers[1]
        client = st_.client
        observers = []
        for o in case.get("observers", []):
            if o["type"] == "single":
                observers.append((o, SingleClient(st_, o["policy"], o.get("frag") or [1024])))
            else:
                p = session.Peer(_SessionShim(st_), "tcp")
                p.send(session.GETPROPS, settle=False)
                if o["policy"] is not None:
                    p.send(session.xml("enableBLOB", {"device": "DEV"}, text=o["policy"]), settle=False)
                observers.append((o, p))
        st_.settle()
        for o, ob in observers:
            if o["type"] == "raw":
                ob.new_output()
        where = f"dir={case['dir']} len={n} kind={kind} fmt={fmt!r} frags={case.get('frags')}"
        # element lengths are MEASURED on the wire (a model of the message goes stale: a second element in the vector ...)
        def _last_len(raw: bytes, tag: str, fallback: int) -> int:
            s_ = raw.decode("latin1")
            i_ = s_.rfind("<" + tag)
            j_ = s_.find("</" + tag + ">", i_) if i_ >= 0 else -1
            return (j_ + len(tag) + 3 - i_) if j_ >= 0 else fallback

        down_mark = len(st_.blob.link.b_writer.all)
        up_marks = [len(st_.control.link.a_writer.all), len(st_.blob.link.a_writer.all)]
        el_len = set_blob_length(data, fmt, "setBLOBVector")
        if case["dir"] == "up":
            up_len = set_blob_length(data, fmt, "newBLOBVector")
            cel = client["DEV"]["BLB"]["A"]
            cel.value = values.BLOB(data, fmt)
            try:
                st_.in_loop(lambda: client["DEV"]["BLB"].submit())
            except Failure:
                raise
            except Exception as exc:  # noqa
                f = lib_exception_failure(exc, "upload-submit")
                raise Failure(f.sig, f"{where}: {f.msg}")
            up_len = max(_last_len(bytes(w.all[m:]), "newBLOBVector", 0) for w, m in zip((st_.control.link.a_writer, st_.blob.link.a_writer), up_marks)) or up_len
            got = drv.g.bl.a._value
            got_bytes = b"" if got is None else got.binary
            if got_bytes != data or (data and (got.format != fmt or got.size != len(data))):
                cond = f"element>{THRESHOLD}" if up_len > THRESHOLD else f"element<={THRESHOLD}"
                raise Failure(f"upload-lost:server-link-thresholded:{cond}", f"{where}: driver holds {len(got_bytes)} bytes, uploaded {len(data)} (newBLOBVector element {up_len} chars)")
            # the link is not stalled: a following write is applied
            client["DEV"]["TXT"]["A"].value = "after-upload"
            st_.in_loop(lambda: client["DEV"]["TXT"].submit())
            if drv.g.t.a._value != "after-upload":
                cond = f"element>{THRESHOLD}" if up_len > THRESHOLD else f"element<={THRESHOLD}"
                raise Failure(f"upload-stalls-link:{cond}", f"{where}: the write sent after the upload was not applied (TXT.A={drv.g.t.a._value!r})")
        else:
            if kind == "unset":
                st_.in_loop(lambda: setattr(drv.g.bl, "state_", "Busy"))
            else:
                st_.in_loop(lambda: setattr(drv.g.bl.a, "value", values.BLOB(data, fmt)))
        el_len = _last_len(bytes(st_.blob.link.b_writer.all[down_mark:]), "setBLOBVector", el_len)
        # ---- the driver's BLOB as seen by the two-connection Client ---------------------------
        want = drv.g.bl.a._value
        want_bytes = b"" if want is None else want.binary
        got = client["DEV"]["BLB"]["A"].value
        got_bytes = b"" if (got is None or isinstance(got, str)) else got.binary
        def _len(b):
            try:
                return len(b)
            except Exception as exc:  # noqa
                raise Failure("blob-length:raises", f"{where}: len() of the received BLOB raises {type(exc).__name__}: {exc}")

        if got_bytes != want_bytes or (want_bytes and ((got.format or "") != (want.format or "") or _len(got) != len(want_bytes))):
            raise Failure("blob-connection:payload-differs", f"{where}: Client holds {len(got_bytes)} bytes, driver {len(want_bytes)}")
        if want is not None and not want_bytes:
            # an empty BLOB the driver published explicitly still has its format
            got_fmt = None if (got is None or isinstance(got, str)) else (got.format or "")
            if got_fmt != (want.format or ""):
                raise Failure("blob-connection:empty-blob-format-lost", f"{where}: driver published an empty BLOB with format {want.format!r}, the Client holds format {got_fmt!r}")
        # ---- ... and by the snooping driver of the same server ---------------------------------------
        if "DEV" in snooper and "BLB" in snooper["DEV"]:
            sv = snooper["DEV"]["BLB"]["A"].value
            sb = b"" if (sv is None or isinstance(sv, str)) else sv.binary
            if sb != want_bytes:
                raise Failure("snooping-driver:payload-differs", f"{where}: the snooping driver holds {len(sb)} bytes, driver {len(want_bytes)}")
        else:
            raise Failure("snooping-driver:property-unknown", f"{where}: the snooping driver does not know DEV.BLB")
        # ---- sentinel: nothing stalls ----------------------------------------------------------
        st_.in_loop(lambda: setattr(drv.g.t.b, "value", f"sentinel-{n}"))
        if client["DEV"]["TXT"]["B"].value != f"sentinel-{n}":
            raise Failure("sentinel-missing:client-control-connection", f"{where}: Client sees TXT.B={client['DEV']['TXT']['B'].value!r}")
        for o, ob in observers:
            pol = o["policy"]
            wants_blob = pol in ("Also", "Only") and case["dir"] == "down" or pol in ("Also", "Only") and case["dir"] == "up"
            wants_text = pol in (None, "Never", "Also")
            big = el_len > THRESHOLD
            cond = f"element>{THRESHOLD}" if big else f"element<={THRESHOLD}"
            if o["type"] == "single":
                c = ob.client
                if ob.task.done():
                    exc = ob.task.exception()
                    f = lib_exception_failure(exc, "single-client-receive-loop-died") if exc else Failure("single-client-receive-loop-ended", "")
                    raise Failure(f.sig, f"{where} policy={pol}: {f.msg}")
                v = c["DEV"]["BLB"]["A"].value if ("DEV" in c and "BLB" in c["DEV"]) else None
                vb = b"" if (v is None or isinstance(v, str)) else v.binary
                if wants_blob:
                    if vb != want_bytes:
                        raise Failure(f"single-connection:{pol}:payload-lost:{cond}", f"{where}: single-connection client ({pol}) holds {len(vb)} bytes, driver {len(want_bytes)} (setBLOBVector element {el_len} chars)")
                elif vb:
                    raise Failure(f"single-connection:{pol}:payload-leaked", f"{where}: client with policy {pol} holds {len(vb)} bytes")
                has_sentinel = "DEV" in c and "TXT" in c["DEV"] and c["DEV"]["TXT"]["B"].value == f"sentinel-{n}"
                if wants_text and not has_sentinel:
                    raise Failure(f"single-connection:{pol}:sentinel-missing:{cond if wants_blob else 'no-blob'}", f"{where}: traffic after the BLOB did not arrive")
            else:
                raw = ob.new_output()
                has_blob = "<setBLOBVector" in raw
                if has_blob != (wants_blob and True):
                    raise Failure(f"raw:{pol}:{'payload-leaked' if has_blob else 'payload-missing'}", f"{where}: inbound stream of a peer with policy {pol} {'contains' if has_blob else 'lacks'} setBLOBVector")
                if has_blob:
                    els = [e for e in gen.split_elements(raw) if e.tag == "setBLOBVector"]
                    one = els[-1][0]
                    if base64.b64decode(one.text or "") != want_bytes or int(one.get("size")) != len(want_bytes) or (want_bytes and one.get("format") != want.format):
                        raise Failure("raw:payload-differs", f"{where}: size={one.get('size')} format={one.get('format')!r}")
                if wants_text != (f"sentinel-{n}" in raw):
                    raise Failure(f"raw:{pol}:sentinel", f"{where}: sentinel present={f'sentinel-{n}' in raw}, expected {wants_text}")
        # the sibling BLOB element of the same property stays unset everywhere
        sib = client["DEV"]["BLB"]["B"].value
        if sib is not None and not isinstance(sib, str) and len(sib.binary):
            raise Failure("sibling-blob-element-polluted", f"{where}: BLB.B holds {len(sib.binary)} bytes on the client, the driver never set it")
        # ---- a second device: policies are per device -------------------------------------------
        data2 = payload(min(n, 300) + 5, 99)
        for o, ob in observers:
            if o["type"] == "raw":
                ob.new_output()
        st_.in_loop(lambda: setattr(drv2.g.bl.a, "value", values.BLOB(data2, ".dev2")))
        got2 = client["DEV2"]["BLB"]["A"].value
        if got2 is None or isinstance(got2, str) or got2.binary != data2 or got2.format != ".dev2":
            raise Failure("second-device:blob-connection:payload-differs", f"{where}: the Client did not receive DEV2's BLOB ({None if got2 is None or isinstance(got2, str) else len(got2.binary)} bytes)")
        got1 = client["DEV"]["BLB"]["A"].value
        got1_bytes = b"" if (got1 is None or isinstance(got1, str)) else got1.binary
        if got1_bytes != want_bytes:
            raise Failure("second-device:first-device-blob-changed", f"{where}: DEV's BLOB on the client changed when DEV2 published")
        for o, ob in observers:  # these observers only ever set a policy for DEV
            if o["type"] == "single":
                c = ob.client
                v2 = c["DEV2"]["BLB"]["A"].value if ("DEV2" in c and "BLB" in c["DEV2"]) else None
                if v2 is not None and not isinstance(v2, str) and len(v2.binary):
                    raise Failure(f"second-device:policy-leaked:{o['policy']}", f"{where}: observer with a policy for DEV only received DEV2's BLOB")
            elif "<setBLOBVector" in ob.new_output():
                raise Failure(f"second-device:policy-leaked:{o['policy']}", f"{where}: raw peer with a policy for DEV only received DEV2's setBLOBVector")
        msg_len = el_len + 23
        return (len(data) > 0 and msg_len > 1024) or any(o["policy"] is not None for o, _ in observers)
    finally:
        if st_ is not None:
            st_.close()


def run_burst(case):
    """Several publications in one go (no settle in between) while every drain() suspends, as a transport under
    back-pressure does. case: {"lens": [int...], "frags": {...}}"""
    from indi.device import values

    st_ = None
    try:
        st_ = stack.Stack([session.SIMPLE_SPEC, session.SECOND_SPEC], case.get("frags"), yield_drains=True)
        drv = st_.dep.drivers[0]
        client = st_.client
        raw = session.Peer(_SessionShim(st_), "tcp")
        raw.send(session.GETPROPS, settle=False)
        raw.send(session.xml("enableBLOB", {"device": "DEV"}, text="Also"), settle=False)
        st_.settle()
        raw.new_output()
        datas = [payload(n, i + 1) for i, n in enumerate(case["lens"])]
        where = f"burst lens={case['lens']} frags={case.get('frags')}"

        def publish():
            for i, d in enumerate(datas):
                drv.g.bl.a.value = values.BLOB(d, ".bin")
                if i == 0:
                    drv.g.t.b.value = "between"

        st_.in_loop(publish)
        out = raw.new_output()
        try:
            els = gen.split_elements(out)
        except Exception as exc:  # noqa
            raise Failure("burst:stream-corrupt", f"{where}: the stream to a raw peer (Also) is not a sequence of elements: {type(exc).__name__}: {str(exc)[:200]}")
        blobs = [e for e in els if e.tag == "setBLOBVector"]
        try:
            got = [base64.b64decode(e[0].text or "") for e in blobs]
        except Exception as exc:  # noqa
            raise Failure("burst:stream-corrupt", f"{where}: a setBLOBVector in the stream to a raw peer carries undecodable text ({exc})")
        if got != datas:
            raise Failure("burst:payloads-differ", f"{where}: raw peer received BLOBs of {[len(g) for g in got]} bytes ({sum(a == b for a, b in zip(got, datas))} intact), published {[len(d) for d in datas]}")
        if [e.tag for e in els] != ["setBLOBVector", "setTextVector"] + ["setBLOBVector"] * (len(datas) - 1):
            raise Failure("burst:order", f"{where}: {[e.tag for e in els]}")
        v = client["DEV"]["BLB"]["A"].value
        vb = b"" if (v is None or isinstance(v, str)) else v.binary
        if vb != datas[-1]:
            raise Failure("burst:blob-connection:payload-differs", f"{where}: Client holds {len(vb)} bytes, last published {len(datas[-1])}")
        st_.in_loop(lambda: setattr(drv.g.bl.a, "value", values.BLOB(b"after", ".bin")))
        v = client["DEV"]["BLB"]["A"].value
        if v is None or isinstance(v, str) or v.binary != b"after":
            raise Failure("burst:later-blob-lost", f"{where}: a BLOB published after the burst did not arrive")
        return len(datas) >= 2 and max(case["lens"]) > 50_000
    finally:
        if st_ is not None:
            st_.close()


def run_refill(case):
    """A driver (and a client) that keeps ONE BLOB object around a preallocated frame buffer, refills the buffer in place and
    publishes (uploads) the same object again: what arrives must be what the buffer holds at that moment.
    case: {"lens": [n1, n2, ...] (payload of each publication), "frags": {...}, "dir": "down"|"up"}"""
    from indi.device import values

    st_ = None
    try:
        st_ = stack.Stack([session.SIMPLE_SPEC, session.SECOND_SPEC], case.get("frags"))
        drv, client = st_.dep.drivers[0], st_.client
        frame = bytearray()
        blob = values.BLOB(frame, ".bin")
        where = f"refill dir={case['dir']} lens={case['lens']}"
        for i, n in enumerate(case["lens"]):
            frame[:] = payload(n, i + 1)  # in place: same bytearray, same BLOB object
            want = bytes(frame)
            if case["dir"] == "down":
                st_.in_loop(lambda: setattr(drv.g.bl.a, "value", blob))
                got = client["DEV"]["BLB"]["A"].value
            else:
                client["DEV"]["BLB"]["A"].value = blob
                st_.in_loop(lambda: client["DEV"]["BLB"].submit())
                got = drv.g.bl.a._value
            gb = b"" if (got is None or isinstance(got, str)) else bytes(got.binary)
            if gb != want:
                same_as_before = i > 0 and gb == payload(case["lens"][i - 1], i)
                raise Failure(
                    f"refill:{case['dir']}:{'previous-payload' if same_as_before else 'payload-differs'}",
                    f"{where}: publication {i} carried {len(gb)} bytes ({'the PREVIOUS frame' if same_as_before else 'not the frame'}), the buffer holds {len(want)}",
                )
        return True
    finally:
        if st_ is not None:
            st_.close()


def check_refill(case):
    return Info(nontrivial=run_refill(case) and len(case["lens"]) >= 2, labels=[case["dir"], "same-length" if len(set(case["lens"])) == 1 else "varying-length"])


def check_burst(case):
    return Info(nontrivial=run_burst(case), labels=[f"burst-of-{len(case['lens'])}", "max>64KiB-message" if max(case["lens"]) > 50_000 else "small"])


class _SessionShim:
    """session.Peer expects an object with .net/.loop/.settle()"""

    def __init__(self, st_):
        self.net, self.loop = st_.net, st_.loop
        self._st = st_

    def settle(self):
        self._st.settle()


def check_one(case):
    nt = run_blob(case)
    labs = [case["dir"], case.get("kind", "complete")] + [f"{o['type']}-{o['policy']}" for o in case.get("observers", [])]
    return Info(nontrivial=nt, labels=labs)


def check_sizes(case):
    """case: {"dir", "lens": [..], "frags": {...}, "fmt"}"""
    n = nt = 0
    for item in case["lens"]:
        L, fmt = (item, case.get("fmt", ".bin")) if isinstance(item, int) else item
        sub = {"dir": case["dir"], "len": L, "seed": L, "fmt": fmt, "frags": case["frags"], "observers": case.get("observers", [])}
        try:
            r = run_blob(sub)
        except Failure as f:
            f.min_case = sub
            f.min_sub = "one"
            raise
        n += 1
        nt += bool(r)
    return Info(n_eval=n, n_nontrivial=nt, label_counts={case["dir"]: n})


SUBCHECKS = {"sizes": check_sizes, "one": check_one, "matrix": check_one, "large": check_one, "burst": check_burst, "refill": check_refill, "compressed": check_one}

FRAGSETS = [
    {"c2s": [1024], "s2c": [1024], "b2s": [1024], "s2b": [1024]},
    {"c2s": [1], "s2c": [1], "b2s": [1], "s2b": [1]},
    {"c2s": [7, 1024, 3], "s2c": [100, 1], "b2s": [5], "s2b": [1, 1023, 2, 64]},
]


def size_list(tier):
    if tier == "thorough":
        return list(range(0, 1701))
    lens = set(range(0, 65))
    # payload lengths around which the base64 text / the whole message crosses 1024 and 2048 characters
    for centre in (660, 768, 1365, 1410, 1536):
        lens.update(range(centre - 6, centre + 7))
    return sorted(lens)


ALIGN_FORMATS = [".z", ".gz", ".bin", ".fits"]  # lengths 2..5: base64 grows in steps of 4, so one of them hits every residue


def _measure(direction, L, fmt):
    """Number of bytes the stack really puts on the wire for one BLOB message (declaration, element, newline):
    measured on a live stack, not derived from a model of the message (a second element in the vector, another
    attribute ... would silently move the alignment otherwise)."""
    from indi.device import values

    st_ = stack.Stack([session.SIMPLE_SPEC, session.SECOND_SPEC], FRAGSETS[0])
    try:
        data = payload(L, L)
        if direction == "down":
            w = st_.blob.link.b_writer
            before = len(w.all)
            st_.in_loop(lambda: setattr(st_.dep.drivers[0].g.bl.a, "value", values.BLOB(data, fmt)))
            return len(w.all) - before
        ws = [st_.control.link.a_writer, st_.blob.link.a_writer]
        before = [len(w.all) for w in ws]
        st_.client["DEV"]["BLB"]["A"].value = values.BLOB(data, fmt)
        st_.in_loop(lambda: st_.client["DEV"]["BLB"].submit())
        return max(len(w.all) - b for w, b in zip(ws, before))
    finally:
        st_.close()


_ALIGNED = {}


def aligned_cases(direction):
    """(length, format) pairs for which the bytes on the wire for the BLOB message are an exact multiple of the
    1024-byte read size, i.e. the last read of the message is a full one. Candidates come from the measured size at
    one length per format (+ 4 base64 characters per 3 payload bytes + the digits of the size attribute); every
    candidate is then measured itself and kept only if it really is aligned."""
    if direction in _ALIGNED:
        return _ALIGNED[direction]
    from harness.core import HarnessError

    out = []
    for fmt in ALIGN_FORMATS:
        const = _measure(direction, 3, fmt) - 4 - 1
        for L in range(0, 1701):
            if (const + 4 * ((L + 2) // 3) + len(str(L))) % 1024 == 0 and _measure(direction, L, fmt) % 1024 == 0:
                out.append([L, fmt])
    if len(out) < 3:
        raise HarnessError(f"C08: only {len(out)} read-size-aligned BLOB messages found for direction {direction}")
    _ALIGNED[direction] = out
    return out


def size_blocks(tier):
    lens = size_list(tier)
    for d in ("down", "up"):
        for fi, frags in enumerate(FRAGSETS):
            use = lens if fi != 1 or tier == "thorough" else [L for L in lens if L <= 64 or L % 3 == 0]
            for i in range(0, len(use), 12):
                yield {"dir": d, "lens": use[i:i + 12], "frags": frags}
        yield {"dir": d, "lens": aligned_cases(d), "frags": FRAGSETS[0]}


frag = st.lists(st.sampled_from([1, 2, 5, 64, 1023, 1024]), min_size=1, max_size=3)
observer_st = st.fixed_dictionaries({"type": st.sampled_from(["single", "raw"]), "policy": st.sampled_from([None, "Never", "Also", "Only"]), "frag": frag})
matrix_case = st.fixed_dictionaries(
    {
        "dir": st.sampled_from(["down", "down", "up"]),
        "len": st.one_of(st.integers(0, 80), st.integers(600, 1500), st.integers(0, 4000)),
        "seed": st.integers(0, 255),
        "fmt": st.sampled_from([".bin", ".fits", "", ".x.y", "a b", "é<&>", ".z", ".fits.z"]),
        "kind": st.sampled_from(["complete", "complete", "complete", "empty", "unset", "zlib"]),
        "frags": st.fixed_dictionaries({"c2s": frag, "s2c": frag, "b2s": frag, "s2b": frag}),
        "observers": st.lists(observer_st, min_size=0, max_size=3),
    }
)


def run(ctx):
    cnt = ctx.each("sizes", size_blocks(ctx.tier), check_sizes, stop_after=4, timeout=300)
    ctx.exhaustive["sizes"] = {"complete": True, "n_blocks": cnt, "bound": ("every length 0..1700" if ctx.tier == "thorough" else "every length 0..64 and +-6 around 660/768/1365/1410/1536") + " x {down, up} x 3 fragmentations; plus every (length, format) whose message is an exact multiple of the 1024-byte read size"}
    ctx.hyp("matrix", matrix_case, check_one, ctx.scale(120, 2500), timeout=120)
    bursts = [{"lens": lens, "frags": f} for lens in ([70_000, 10], [10, 70_000, 10], [150_000, 70_000], [3, 2, 1], [1500, 1500, 1500])
              for f in (FRAGSETS[0], {"c2s": [1024], "s2c": [1000, 24], "b2s": [1024], "s2b": [4096, 1, 1024]})]
    # a backlog of several MB queued at once (more than any plausible per-connection buffer limit)
    bursts.append({"lens": [800_000] * 8, "frags": {"c2s": [1024], "s2c": [65536], "b2s": [1024], "s2b": [65536]}})
    ctx.each("burst", bursts, check_burst, stop_after=2, timeout=300)
    comp = [{"dir": d, "len": L, "seed": L, "fmt": f, "kind": "zlib", "frags": FRAGSETS[0], "observers": [{"type": "raw", "policy": "Also", "frag": [1024]}]}
            for d in ("down", "up") for f in (".z", ".fits.z", ".fits") for L in (0, 40, 700)]
    ctx.each("compressed", comp, check_one, stop_after=2, timeout=300)
    refills = [{"dir": d, "lens": lens, "frags": FRAGSETS[0]} for d in ("down", "up") for lens in ([40, 40, 40], [700, 700], [30, 900, 30], [0, 12, 12])]
    ctx.each("refill", refills, check_refill, stop_after=2, timeout=300)
    if ctx.tier == "thorough":
        big = [{"dir": "down", "len": L, "seed": 3, "fmt": ".fits", "frags": f, "observers": [{"type": "raw", "policy": "Only", "frag": [1024]}, {"type": "raw", "policy": None, "frag": [1024]}]}
               for L in (100_000, 250_000, 1_000_000, 2_000_000) for f in (FRAGSETS[0], {"c2s": [1024], "s2c": [1024], "b2s": [1024], "s2b": [4096, 1, 1024]})]
        ctx.each("large", big, check_one, stop_after=2, timeout=1800)
