"""C07 - getProperties is answered with exactly the definitions asked for."""
from __future__ import annotations

from hypothesis import strategies as st

from harness import drivers, gen, refnum
from harness.core import Failure, Info

ID = "C07"
LEVEL = "exploration"
SHARDS = {"quick": 8, "thorough": 16}
RULE = (
    "deployments of 1-3 generated drivers (1-3 groups, all five vector kinds, inheritance depth <= 3, enabled/disabled groups, "
    "vectors and elements; a third of the cases also register the library's Proxy driver, unconnected) on a real Router, brought to a state by <= 15 driver-side ops (values, BLOBs set/unset, states, "
    "vector/group enable/disable, selections, re-publication, reset to defaults, hide-group / toggle / show-group macros), then one getProperties request with device in {each existing, unknown, absent} "
    "and name in {enabled, disabled, unknown, absent}. Oracle: the multiset of def* messages a recording client receives equals "
    "the expectation computed from the spec and the driver's public attributes (one per enabled property of each addressed "
    "device or only the named one; device/name/group/label/state/perm/rule/timeout; one child per enabled element with "
    "name/label/current value/number format,min,max,step); no definition from unaddressed devices or for unknown names; and EVERY "
    "message emitted during the history and the reply is serialized, re-parsed by the library's parser - from the bytes, and once more through the library's own client read loop (its decoding and framing) - and read back unchanged. "
    "Non-trivial: the addressed device has >= 1 disabled and >= 1 enabled property, or >= 1 op changed the state before the request."
)
ASSUMPTIONS = [
    "a delProperty sent for a disabled named property is tolerated (it is not a definition)",
    "numbers are compared by denoted value within the format's resolution (harness/refnum.py)",
]


def expected_defs(dep, d):
    """Expected def views for device index d: {vector name: dict}"""
    out = {}
    spec = dep.specs[d]
    for g, v in dep.vectors[d]:
        if not dep.is_enabled(d, g, v):
            continue
        inst = dep.instance(d, g, v)
        children = []
        for e in v["elements"]:
            if not dep.element_enabled(d, g, v, e):
                continue
            el = getattr(inst, e["attr"])
            children.append({"name": e["name"], "label": e.get("label") or e["name"], "value": el._value, "spec": e})
        out[v["name"]] = {
            "tag": f"def{v['kind']}Vector", "device": spec["name"], "name": v["name"], "group": g["name"],
            "label": v.get("label") or v["name"], "state": inst.state_, "perm": None if v["kind"] == "Light" else v["perm"],
            "rule": v.get("rule") if v["kind"] == "Switch" else None, "timeout": None if v["kind"] == "Light" else v["timeout"],
            "kind": v["kind"], "children": children,
        }
    return out


def _num_eq(a, b):
    try:
        return float(a) == float(b)
    except (TypeError, ValueError):
        return False


def compare_def(msg, exp, where="def"):
    tag = msg.__class__.tag_name()
    if tag != exp["tag"]:
        raise Failure(f"{where}-kind", f"{exp['name']}: {tag} instead of {exp['tag']}")
    for f in ("device", "name", "group", "label", "state", "perm", "rule"):
        got = getattr(msg, f, None)
        if exp[f] is None:
            continue
        if str(got) != str(exp[f]):
            raise Failure(f"{where}-metadata:{f}", f"{exp['name']}: {f}={got!r}, expected {exp[f]!r}")
    if exp["timeout"] is not None and not _num_eq(getattr(msg, "timeout", None), exp["timeout"]):
        raise Failure(f"{where}-metadata:timeout", f"{exp['name']}: timeout={getattr(msg, 'timeout', None)!r}, expected {exp['timeout']!r}")
    if getattr(msg, "timestamp", None) is None:
        raise Failure(f"{where}-metadata:timestamp", f"{exp['name']}: no timestamp")
    kids = list(msg.children)
    if [c.name for c in kids] != [c["name"] for c in exp["children"]]:
        raise Failure(f"{where}-elements", f"{exp['name']}: elements {[c.name for c in kids]}, expected {[c['name'] for c in exp['children']]}")
    for c, ec in zip(kids, exp["children"]):
        compare_child(c, ec, exp, where)


def compare_child(c, ec, exp, where):
    kind = exp["kind"]
    want_tag = ("def" if where == "def" else "one") + kind
    if c.__class__.tag_name() != want_tag:
        raise Failure(f"{where}-child-kind", f"{exp['name']}.{ec['name']}: {c.__class__.tag_name()}")
    if where == "def" and str(getattr(c, "label", None)) != str(ec["label"]):
        raise Failure("def-child-label", f"{exp['name']}.{ec['name']}: label {getattr(c, 'label', None)!r}, expected {ec['label']!r}")
    v = ec["value"]
    got = c.value
    if kind == "Number":
        spec = ec["spec"]
        if where == "def":
            if str(c.format) != spec["format"]:
                raise Failure("def-number-format", f"{c.format!r} vs {spec['format']!r}")
            for f in ("min", "max", "step"):
                if not _num_eq(getattr(c, f), spec.get(f) or 0):
                    raise Failure(f"def-number-{f}", f"{exp['name']}.{ec['name']}: {f}={getattr(c, f)!r}, expected {spec.get(f) or 0!r}")
        if v is None:
            if got is not None:
                raise Failure(f"{where}-value:Number", f"{got!r} for unset number")
            return
        try:
            denoted = refnum.parse(str(got))
        except ValueError:
            raise Failure(f"{where}-value:Number-not-a-number", f"{exp['name']}.{ec['name']}: {got!r}")
        if not refnum.conforms(str(got), spec["format"]):
            raise Failure(f"{where}-value:Number-not-in-format", f"{exp['name']}.{ec['name']}: {got!r} is not how {spec['format']!r} renders a number")
        tol = refnum.resolution(spec["format"]) * (1 + 1e-9) + abs(v) * 1e-12
        if abs(denoted - v) > tol:
            raise Failure(f"{where}-value:Number", f"{exp['name']}.{ec['name']}: text {got!r} denotes {denoted}, driver holds {v} (format {spec['format']})")
    elif kind == "BLOB":
        if where == "def":
            if gen.norm_text(got) is not None:
                raise Failure("def-value:BLOB-carries-text", f"{exp['name']}.{ec['name']}: defBLOB carries {str(got)[:60]!r}")
        else:
            import base64

            payload = base64.b64decode(got or "")
            want = v.binary if v is not None else b""
            if payload != want or (v is not None and (str(c.format) != v.format or int(c.size) != len(want))):
                raise Failure("set-value:BLOB", f"{exp['name']}.{ec['name']}: payload/format/size differ")
    else:
        if gen.norm_text(got) != gen.norm_text(v):
            raise Failure(f"{where}-value:{kind}", f"{exp['name']}.{ec['name']}: {got!r}, driver holds {v!r}")


def parse_back(msg, where):
    from indi.message import IndiMessage

    try:
        wire = msg.to_string()
    except Exception as e:  # noqa
        raise Failure(f"emitted-unserializable:{msg.__class__.tag_name()}", f"{type(e).__name__}: {e}")
    try:
        back = IndiMessage.from_string(wire)
    except Exception as e:  # noqa
        kids = getattr(msg, "children", None) or ()
        detail = "other"
        for c in kids:
            t = c.__class__.tag_name()
            if t == "defNumber" and (getattr(c, "min", None) is None or getattr(c, "max", None) is None):
                detail = "defNumber-without-min-max"
            if t == "oneBLOB" and (getattr(c, "size", None) is None or getattr(c, "format", None) is None):
                detail = "oneBLOB-without-size-format"
        raise Failure(f"emitted-unparsable:{msg.__class__.tag_name()}:{detail}", f"{where}: {type(e).__name__}: {e} on {wire[:400]!r}")
    if gen.view(back) != gen.view(msg):
        raise Failure(f"emitted-reads-back-differently:{msg.__class__.tag_name()}", f"{where}: {gen.view(msg)} -> {gen.view(back)}")
    # ... and is read once more, at the end of the case, through one of the library's own read loops (transport_readback)
    if isinstance(wire, (bytes, bytearray)):
        _EMITTED.append((bytes(wire), msg, where))


_EMITTED = []


def transport_readback():
    """Every message emitted in the case, as the bytes to_string() gave, through the library's own client-side read loop
    (its decoding, its framing; no junk threshold): read back unchanged and in order."""
    from indi.transport.client.tcp import ConnectionHandler

    from harness import net

    items = list(_EMITTED)
    _EMITTED.clear()
    if not items:
        return
    loop = net.new_loop()
    try:
        got = []
        reader, writer = net.FakeReader(loop), net.FakeWriter(loop)
        handler = ConnectionHandler(reader, writer, got.append, for_blobs=True)
        task = loop.create_task(handler.wait_for_messages())
        loop.drain()
        for wire, _msg, _where in items:
            reader.feed(wire)
            loop.drain()
        if task.done() and not task.cancelled() and task.exception() is not None:
            exc = task.exception()
            raise Failure(f"emitted-unreadable-by-transport:{type(exc).__name__}", f"the client read loop died on the emitted traffic: {type(exc).__name__}: {exc}")
        for k, (wire, msg, where) in enumerate(items):
            if k >= len(got) or gen.view(got[k]) != gen.view(msg):
                back = gen.view(got[k]) if k < len(got) else None
                raise Failure(f"emitted-reads-back-differently:through-a-transport:{msg.__class__.tag_name()}", f"{where}: {gen.view(msg)} -> {back} (message {k} of {len(items)}, {len(got)} read)")
    finally:
        loop.shutdown()


class Recorder:
    def __init__(self):
        from indi.routing import Client

        rec = self
        self.messages = []

        class Rec(Client):
            def message_from_device(self, message):
                rec.messages.append(message)

        self.client = Rec()


def check_request(case):
    """case: {"devices": [spec...], "ops": [...], "req": {"dev": int|-1 (absent)|-2 (unknown), "name": int|-1|-2}}"""
    from indi import message
    from indi.routing import Router

    router = Router()
    rec = Recorder()
    router.register_client(rec.client)
    _EMITTED.clear()
    dep = drivers.Deployment(case["devices"], router)
    if case.get("proxy"):
        # the library's own Proxy driver (unconnected) next to the generated ones: it is handed every client message
        # (accepts() is always true, for forwarding) but only answers for itself
        from indi.device import Proxy

        type("C07Proxy", (Proxy,), {})(name="PROXY", router=router)
    for spec in dep.specs:  # the observer wants BLOB updates too
        router.process_message(message.EnableBLOB(device=spec["name"], value="Also"), sender=rec.client)
    labels = set()
    changed = 0
    for op in case["ops"]:
        before = len(rec.messages)
        try:
            lab = dep.apply(op)
        except Exception as e:  # noqa
            from harness.core import lib_exception_failure

            raise lib_exception_failure(e, f"driver-op:{op['op']}")
        labels.add(lab.split("-")[0])
        changed += lab != "noop"
        for m in rec.messages[before:]:
            parse_back(m, f"during {op['op']}")
    rec.messages.clear()
    nd = len(dep.specs)
    rq = case["req"]
    if rq["dev"] == -1:
        devname, addressed = None, list(range(nd))
    elif rq["dev"] == -2:
        devname, addressed = "NOSUCHDEVICE", []
    else:
        i = rq["dev"] % nd
        devname, addressed = dep.specs[i]["name"], [i]
    name = None
    name_kind = "absent"
    if rq["name"] == -2:
        name, name_kind = "NOSUCHPROPERTY", "unknown"
    elif rq["name"] >= 0 and addressed:
        d0 = addressed[0]
        g, v = dep.vectors[d0][rq["name"] % len(dep.vectors[d0])]
        name = v["name"]
        name_kind = "enabled" if dep.is_enabled(d0, g, v) else "disabled"
    elif rq["name"] >= 0:
        name, name_kind = "G0V0", "of-unknown-device"
    req = message.GetProperties(version="1.7", device=devname, name=name)
    try:
        router.process_message(req, sender=rec.client)
    except Exception as e:  # noqa
        from harness.core import lib_exception_failure

        raise lib_exception_failure(e, "getProperties")
    want = {}
    for d in addressed:
        for vname, exp in expected_defs(dep, d).items():
            if name is None or vname == name:
                want[(dep.specs[d]["name"], vname)] = exp
    if case.get("proxy") and devname is None and name is None:
        want[("PROXY", "CONNECTION")] = "PROXY"
    got_defs = []
    for m in rec.messages:
        parse_back(m, "reply")
        tag = m.__class__.tag_name()
        if tag.startswith("def"):
            got_defs.append(m)
        elif tag == "delProperty":
            continue
        else:
            raise Failure(f"reply-unexpected:{tag}", f"getProperties(device={devname!r}, name={name!r}) elicited {tag}")
    transport_readback()
    keys = sorted((m.device, m.name) for m in got_defs)
    if keys != sorted(want):
        missing = sorted(set(want) - set(keys))
        extra = [k for k in keys if k not in want or keys.count(k) > 1]
        raise Failure(
            f"reply-set:{'missing' if missing else 'extra'}:name-{name_kind}:device-{'absent' if devname is None else 'unknown' if not addressed else 'named'}",
            f"getProperties(device={devname!r}, name={name!r}): definitions {keys}, expected {sorted(want)}",
        )
    for m in got_defs:
        if want[(m.device, m.name)] != "PROXY":
            compare_def(m, want[(m.device, m.name)], "def")
    nt = changed >= 1
    for d in addressed:
        flags = [dep.is_enabled(d, g, v) for g, v in dep.vectors[d]]
        if any(flags) and not all(flags):
            nt = True
    if case.get("proxy"):
        labels.add("with-proxy-device")
    labels |= {f"name-{name_kind}", f"device-{'absent' if devname is None else 'unknown' if not addressed else 'named'}", f"devices={nd}"}
    if any(len(s["chain"]) >= 2 for s in dep.specs):
        labels.add("inherited")
    return Info(nontrivial=nt, labels=sorted(labels))


request_st = st.fixed_dictionaries({"dev": st.sampled_from([-1, -2, 0, 1, 2, 0]), "name": st.sampled_from([-1, -1, -2, 0, 1, 2, 3, 4])})
_i = st.integers(0, 11)
# sequences that matter as sequences: every element of one property hidden (or shown) in one go; a value published, then
# changed through the silent setter (reset), optionally published again
_c07_macros = st.one_of(
    st.tuples(_i, _i, st.booleans()).map(lambda t: [{"op": "eenable", "d": t[0], "v": t[1], "e": e, "on": t[2]} for e in range(6)]),
    st.tuples(_i, _i, _i, drivers.value_st, drivers.value_st, st.booleans()).map(
        lambda t: [{"op": "assign", "d": t[0], "v": t[1], "e": t[2], "val": t[3]}, {"op": "reset", "d": t[0], "v": t[1], "e": t[2], "val": t[4]}]
        + ([{"op": "republish", "d": t[0], "v": t[1], "e": t[2]}] if t[5] else [])
    ),
)
case_st = st.fixed_dictionaries(
    {
        "devices": drivers.deployment(max_devices=3).filter(lambda specs: all(drivers.spec_size_ok(s) for s in specs)),
        "ops": st.lists(drivers.driver_op() | drivers.driver_macro() | _c07_macros | st.fixed_dictionaries({"op": st.just("reset"), "d": st.integers(0, 11), "v": st.integers(0, 11), "e": st.integers(0, 11), "val": drivers.value_st}) | st.fixed_dictionaries({"op": st.just("eenable"), "d": st.integers(0, 11), "v": st.integers(0, 11), "e": st.integers(0, 11), "on": st.booleans()}), max_size=15).map(drivers.flatten_ops),
        "req": request_st,
        "proxy": st.sampled_from([False, False, True]),
    }
)

SUBCHECKS = {"request": check_request}


def run(ctx):
    ctx.hyp("request", case_st, check_request, ctx.scale(350, 6000))
