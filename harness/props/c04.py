"""C04 - Client messages reach exactly the addressed devices."""
from __future__ import annotations

import itertools

from hypothesis import strategies as st

from harness import routing
from harness.core import Failure, Info
from harness.props import c05

ID = "C04"
LEVEL = "exploration"
SHARDS = {"quick": 8, "thorough": 16}
RULE = (
    "'states': exhaustive enumeration of the bounded universe: every subset of 3 devices (a real Driver named A, a recording "
    "device B, a catch-all device) x every abstract client state of <= 2 (quick) / 3 (thorough) clients (unregistered, or "
    "registered with policy {unset,Never,Also,Only} for A and B); in every state EVERY client-originated send (getProperties, "
    "enableBLOB x 3 values, pingReply, 4 new*Vector kinds) x device name {A, B, none, unknown} x sender {each client - registered "
    "or not -, each device, none} is applied to a real Router and the multiset of (endpoint, message) deliveries compared with the "
    "reference router: every registered device != sender that accepts the name exactly once, no client ever receives a device-bound "
    "message, getProperties relayed per C05's rule, nothing raised; recording endpoints are containers of what they received (falsy while empty); 'flood': a getProperties answered from inside its delivery with 3 .. 5000 (thorough: 60000) definitions while a client reacts to one of them with a message for another device: delivered exactly once; 'unreferenced': devices the "
    "caller keeps no reference to stay registered across a gc pass. 'history': Hypothesis histories (<= 40 ops, <= 6 clients) of "
    "register-device/register-client/unregister/enableBLOB/client-send. Non-trivial: >= 2 devices registered, sender given, and at "
    "least one registered device that must NOT receive the message."
)
ASSUMPTIONS = c05.ASSUMPTIONS

CLIENT_SENDS = [(k, d, v) for k in routing.CLIENT_KINDS for d in range(4) for v in ((0, 1, 2) if k == "enableBLOB" else (0,))]


def build(devs, state):
    w = routing.World(ndev=3, ncli=len(state))
    for i, on in enumerate(devs):
        if on:
            w.apply({"op": "regdev", "i": i})
    for i, s in enumerate(state):
        if s is not None:
            w.apply({"op": "reg", "i": i})
    for i, s in enumerate(state):
        if s is not None:
            for d, pol in enumerate(s):
                if pol != "unset":
                    w.apply({"op": "send", "kind": "enableBLOB", "dev": d, "sender": i, "value": routing.POLICIES.index(pol)})
    return w


def _nontrivial(w, devname, sender, want):
    regs = w.registered_devs
    if len(regs) < 2 or sender is None:
        return False
    return any(d != sender and d not in want for d in regs)


def check_state(case):
    """case: {"devs": [bool]*3, "state": [...], "only": {...}?}"""
    state = [None if s is None else list(s) for s in case["state"]]
    devs = case["devs"]
    only = case.get("only")
    sends = CLIENT_SENDS if only is None else [(only["kind"], only["dev"], only["value"])]
    n = len(state)
    n_eval = n_nt = 0
    w = build(devs, state)
    nsender = len(w.senders())
    for k, d, v in sends:
        for s in range(nsender) if only is None else [only["sender"]]:
            if k == "enableBLOB":
                w = build(devs, state)  # enableBLOB mutates the policy map: observe it from the pristine state
            op = {"op": "send", "kind": k, "dev": d, "sender": s, "value": v}
            try:
                r = w.apply(op)
            except Failure as f:
                f.min_case = {"devs": devs, "state": state, "only": {"kind": k, "dev": d, "value": v, "sender": s}}
                raise
            n_eval += 1
            n_nt += _nontrivial(w, r[2], r[3], r[4])
    return Info(n_eval=n_eval, n_nontrivial=n_nt, label_counts={f"devices={sum(devs)}": 1})


def check_unreferenced(case):
    """Devices (and drivers) that nobody but the router refers to - built in a helper, registered, the local name dropped -
    are registered devices like any other. case: {"n": devices, "kind": "plain"|"driver", "gc": bool}"""
    import gc

    from indi import message
    from indi.routing import Device, Router

    router = Router()
    log = []

    def build(i):
        if case["kind"] == "plain":
            class Dev(Device):
                def accepts(self, device):
                    return device in (None, f"D{i}")

                def message_from_client(self, m):
                    log.append(i)

            router.register_device(Dev())
        else:
            from indi.device import Driver, properties

            cls = type(f"C04Drv{i}", (Driver,), {"g": properties.Group("G", vectors={"v": properties.TextVector("V", elements={"e": properties.Text("E")})})})
            cls(name=f"D{i}", router=router)  # a bare statement: the router holds the only reference

    for i in range(case["n"]):
        build(i)
    if case.get("gc"):
        gc.collect()
    if case["kind"] == "plain":
        router.process_message(message.GetProperties(version="1.7"), sender=None)
        if sorted(log) != list(range(case["n"])):
            raise Failure("unreferenced-device-not-served:plain", f"{case}: getProperties reached devices {sorted(log)} of {case['n']} registered")
    else:
        from indi.routing import Client

        got = []

        class Rec(Client):
            def message_from_device(self, m):
                got.append(getattr(m, "device", None))

        rec = Rec()
        router.register_client(rec)
        router.process_message(message.GetProperties(version="1.7"), sender=rec)
        want = sorted(f"D{i}" for i in range(case["n"]))
        if sorted(set(got)) != want:
            raise Failure("unreferenced-device-not-served:driver", f"{case}: definitions came from {sorted(set(got))}, registered {want}")
    return Info(nontrivial=True, labels=[case["kind"], "after-gc" if case.get("gc") else "no-gc"])


def check_history(case):
    w = routing.World(ndev=case["ndev"], ncli=case["ncli"])
    nt = False
    labels = set()
    for op in case["ops"]:
        r = w.apply(op)
        if isinstance(r, tuple):
            _, kind, devname, sender, want = r
            if kind in routing.CLIENT_KINDS and _nontrivial(w, devname, sender, want):
                nt = True
            labels.add("from-" + ("device" if str(sender).startswith("d") else "client" if sender else "nobody"))
            if devname == "Z":
                labels.add("unknown-device-name")
            if devname is None:
                labels.add("no-device-name")
    return Info(nontrivial=nt, labels=sorted(labels))


client_history_ops = st.one_of(
    st.fixed_dictionaries({"op": st.just("regdev"), "i": st.integers(0, 2)}),
    st.fixed_dictionaries({"op": st.just("regdev"), "i": st.integers(0, 2)}),
    st.fixed_dictionaries({"op": st.just("reg"), "i": st.integers(0, 5)}),
    st.fixed_dictionaries({"op": st.just("unreg"), "i": st.integers(0, 5)}),
    st.fixed_dictionaries({"op": st.just("send"), "kind": st.sampled_from(routing.CLIENT_KINDS), "dev": st.integers(0, 3), "sender": st.integers(0, 12), "value": st.integers(0, 2)}),
    st.fixed_dictionaries({"op": st.just("send"), "kind": st.sampled_from(routing.CLIENT_KINDS), "dev": st.integers(0, 3), "sender": st.integers(0, 12), "value": st.integers(0, 2)}),
    st.fixed_dictionaries({"op": st.just("send"), "kind": st.sampled_from(routing.DEVICE_KINDS), "dev": st.integers(0, 3), "sender": st.integers(0, 12)}),
)
history = st.fixed_dictionaries({"ndev": st.integers(1, 3), "ncli": st.integers(1, 6), "ops": st.lists(client_history_ops, min_size=2, max_size=40)})

def check_flood(case):
    """A big installation: one getProperties is answered, from inside its delivery, with `n` definitions; a client reacts to
    the `react_at`-th of them with a getProperties for another device (what a snooping driver does). Every message sent
    that way is a message like any other: the second device receives the request exactly once, whatever else is in flight.
    case: {"n": int, "react_at": int, "kind": "getProperties"|"newTextVector"}"""
    from indi import message as M
    from indi.routing import Client, Device, Router

    router = Router()
    n = case["n"]
    b_got = []
    seen = {"defs": 0, "obs": 0}

    class A(Device):
        def accepts(self, device):
            return device in (None, "A")

        def message_from_client(self, m):
            if m.__class__.tag_name() == "getProperties":
                for i in range(n):
                    router.process_message(M.DefTextVector(device="A", name=f"P{i}", state="Ok", perm="rw", children=()), sender=self)

    class B(Device):
        def accepts(self, device):
            return device in (None, "B")

        def message_from_client(self, m):
            b_got.append(m.__class__.tag_name())

    class Reactor(Client):
        def message_from_device(self, m):
            if m.__class__.tag_name() == "defTextVector" and m.device == "A":
                seen["defs"] += 1
                if seen["defs"] == 1 + case["react_at"] % n:
                    if case["kind"] == "getProperties":
                        router.process_message(M.GetProperties(version="1.7", device="B"), sender=self)
                    else:
                        router.process_message(M.NewTextVector(device="B", name="T", children=()), sender=self)

    class Obs(Client):
        def message_from_device(self, m):
            if m.__class__.tag_name() == "defTextVector" and m.device == "A":
                seen["obs"] += 1

    a, b, reactor, obs = A(), B(), Reactor(), Obs()
    router.register_device(a)
    router.register_device(b)
    router.register_client(reactor)
    router.register_client(obs)
    try:
        router.process_message(M.GetProperties(version="1.7", device="A"), sender=obs)
    except Exception as exc:  # noqa
        raise Failure(f"flood:raises:{type(exc).__name__}", f"{case}: {type(exc).__name__}: {exc}")
    want = [case["kind"]]
    if b_got != want:
        raise Failure("flood:message-sent-during-a-large-reply-not-delivered-exactly-once", f"{case}: device B received {b_got}, expected {want}")
    if seen["defs"] != n or seen["obs"] != n:
        raise Failure("flood:definitions-lost", f"{case}: {n} definitions sent, the reacting client saw {seen['defs']}, the observer {seen['obs']}")
    return Info(nontrivial=n > 100, labels=[f"n={n}", case["kind"]])


SUBCHECKS = {"flood": check_flood, "states": check_state, "history": check_history, "unreferenced": check_unreferenced}


def states(n):
    for devs in itertools.product([False, True], repeat=3):
        for combo in itertools.product(c05.OPTS, repeat=n):
            yield {"devs": list(devs), "state": [None if s is None else list(s) for s in combo]}


def run(ctx):
    n = 2 if ctx.tier == "quick" else 3
    cnt = ctx.each("states", states(n), check_state, stop_after=6, timeout=120)
    ctx.exhaustive["states"] = {"complete": True, "n_states": cnt, "bound": f"8 device subsets x 17^{n} client states; every client-originated send x 4 device names x every sender in each"}
    ctx.hyp("history", history, check_history, ctx.scale(400, 8000))
    ctx.each("unreferenced", [{"n": n_, "kind": k, "gc": g} for n_ in (1, 3) for k in ("plain", "driver") for g in (False, True)], check_unreferenced, stop_after=2)
    big = ctx.scale(5000, 60000)
    ctx.each("flood", [{"n": n_, "react_at": r, "kind": k} for n_ in (3, 50, 1500, big) for r in (0, 1, n_ - 1) for k in ("getProperties", "newTextVector")], check_flood, stop_after=2, timeout=150)
