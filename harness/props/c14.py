"""C14 - Driver event contract: Write, then default update and publication, then Change."""
from __future__ import annotations

import asyncio

from hypothesis import strategies as st

from harness import net
from harness.core import Failure, Info, lib_exception_failure

ID = "C14"
LEVEL = "exploration"
SHARDS = {"quick": 8, "thorough": 16}
RULE = (
    "handler configurations (0-4 handlers over Write / Change / Read, plain or coroutine functions (coroutines also as a functools.wraps-decorated async wrapper around a plain function; one function on two event kinds), vetoing or not - also a "
    "coroutine that sets prevent_default, which must have no effect -, attached to one or both elements of a vector, declared on a "
    "base or a derived driver class) x element kind (Text, Number, Switch, Light, BLOB) x vector enabled or not x 1 or 2 instances, each of "
    "the derived or of the base class (the classes share the property definitions) x op sequences (client newXXXVector through the Router - without a time stamp or with one of two constant ones -, set_value(), direct assignment, reads; values from a "
    "two-value domain - three for Text: the empty text is a value - so that changing and unchanged writes both occur). Handlers are closures appending (handler, instance, event "
    "type, element, payload, element value now, #publications now, in-task?) to a trace; a recording client counts publications. "
    "Oracle (trace vs analytic expectation): each Write handler of the element exactly once with the requested value, plain ones "
    "before any state change/publication, coroutine ones as tasks afterwards; veto => no change, no publication, no Change; "
    "otherwise the value is taken, exactly one update carrying it iff the vector is enabled, Change exactly once iff old != new "
    "with (old, new); direct assignment identical minus Write; a refreshing plain Read handler's value is what a read returns and "
    "what an update carries; handlers of other elements / other instances are never invoked. 'nested': a handler of E0 forwards a "
    "value to E1 with set_value(); the contract (plain Write handlers before the state change, veto, update, Change) holds for that "
    "write made from inside a handler. Non-trivial: >= 1 handler and both a "
    "changing and an unchanged write in the sequence; distinct = canonical JSON."
)
ASSUMPTIONS = [
    "for BLOBs only 'bytes changed => Change' is asserted (BLOB values have identity equality)",
    "whether Change is raised before or after the publication is not asserted",
    "for switches the value taken is the requested one after the vector's rule (OneOfMany keeps its last On switch On); Change is judged on the value actually taken; events of sibling switches flipped by a rule are not asserted",
]

DOMAIN = {
    "Text": ["a", "b", ""],  # clearing a text is a write like any other
    "Number": [1, 2.5, 1.0, 2.5],  # 1 and 1.0 are the same value
    "Switch": ["On", "Off"],
    "Light": ["Ok", "Busy"],
    "BLOB": ["78", "79"],  # hex
}
WIRE = {"Text": ["a", "b", ""], "Number": ["1", "2.5"], "Switch": ["On", "Off"]}


def py_value(kind, i):
    v = DOMAIN[kind][i % len(DOMAIN[kind])]
    if kind == "BLOB":
        from indi.device import values

        return values.BLOB(bytes.fromhex(v), ".bin")
    return v


def norm(kind, v):
    if kind == "BLOB":
        return None if v is None else v.binary
    if kind == "Number" and v is not None:
        return float(v)
    return v


class Rig:
    def __init__(self, case):
        from indi.device import Driver, properties
        from indi.device.events import Change, Read, Write, on
        from indi.routing import Client, Router

        self.case = case
        self.kind = kind = case["kind"]
        self.loop = net.new_loop()
        self.router = Router()
        self.published = []
        self.trace = []
        rig = self

        class Rec(Client):
            def message_from_device(self, message):
                rig.published.append(message)

        self.rec = Rec()
        self.router.register_client(self.rec)
        from indi import message as M

        for i in range(case.get("instances", 1)):  # the observer wants BLOB updates as well
            self.router.process_message(M.EnableBLOB(device=f"DEV{i}", value="Also"), sender=self.rec)

        ecls = getattr(properties, kind)
        vcls = getattr(properties, kind + "Vector")
        kwargs = {"enabled": case.get("enabled", True), "elements": {"e0": ecls("E0"), "e1": ecls("E1")}}
        if kind == "Switch":
            kwargs["rule"] = case.get("rule", "AnyOfMany")
        self.group_def = properties.Group("G", vectors={"v": vcls("V", **kwargs)})
        el_defs = [self.group_def.vectors["v"].elements["e0"], self.group_def.vectors["v"].elements["e1"]]
        evcls = {"Write": Write, "Change": Change, "Read": Read}
        dcts = [{"g": self.group_def}, {}]
        self.refresh_value = {}
        for hid, h in enumerate(case["handlers"]):
            def make(hid=hid, h=h):
                def body(self_drv, event):
                    el = event.element
                    actual = type(event).__name__
                    entry = {
                        "h": hid, "inst": self_drv._verif_index, "ev": actual, "el": el.name, "el_inst": el.vector.device._verif_index,
                        "new": getattr(event, "new_value", None), "old": getattr(event, "old_value", None),
                        "value_now": el._value, "published_now": len(rig.published),
                        "in_task": asyncio.current_task() is not rig.main_task,
                    }
                    rig.trace.append(entry)
                    if h.get("veto") and actual == "Write":
                        event.prevent_default = True
                    if actual == "Read" and h.get("refresh") and not h["coro"]:
                        el.reset_value(py_value(kind, h["refresh"] - 1))

                if h["coro"] and h.get("wrapped"):
                    # a coroutine function produced by a decorator around a PLAIN function (functools.wraps sets __wrapped__):
                    # what is subscribed is a coroutine function and must be treated as one
                    import functools

                    def inner(self_drv, event):
                        body(self_drv, event)

                    @functools.wraps(inner)
                    async def fn(self_drv, event):
                        inner(self_drv, event)
                elif h["coro"]:
                    async def fn(self_drv, event):
                        body(self_drv, event)
                else:
                    def fn(self_drv, event):
                        body(self_drv, event)
                fn.__name__ = f"handler{hid}"
                targets = [el_defs[i % 2] for i in sorted(set(h["on"]))]
                fn = on(targets, evcls[h["ev"]])(fn)
                if h.get("ev2") and h["ev2"] != h["ev"]:
                    # the SAME function also subscribed to a second kind of event of the same elements (stacked decorators)
                    fn = on(targets, evcls[h["ev2"]])(fn)
                return fn

            dcts[h.get("level", 0) % 2][f"handler{hid}"] = make()
        Base = type("C14Base", (Driver,), dcts[0])
        Leaf = type("C14Leaf", (Base,), dcts[1])
        self.drivers = []
        # "classes": which class each instance is made from (an instance of the base class carries only the handlers
        # declared there; it shares the property definitions - and their handler tables - with the derived instances)
        self.classes = [(case.get("classes") or ["leaf"])[i % len(case.get("classes") or ["leaf"])] for i in range(case.get("instances", 1))]
        for i in range(case.get("instances", 1)):
            d = (Leaf if self.classes[i] == "leaf" else Base)(name=f"DEV{i}", router=self.router)
            d._verif_index = i
            self.drivers.append(d)
        self.main_task = None

    def element(self, inst, e):
        return getattr(self.drivers[inst].g.v, f"e{e}")

    def run_sync(self, fn):
        async def go():
            self.main_task = asyncio.current_task()
            try:
                return fn()
            finally:
                self.sync_len = len(self.trace)  # what ran before the call returned (tasks run later)

        r = self.loop.run_until_complete(go())
        return r

    def close(self):
        self.loop.shutdown()


def handlers_for(case, ev, e, coro=None, cls="leaf"):
    out = []
    for hid, h in enumerate(case["handlers"]):
        if cls == "base" and h.get("level", 0) % 2 == 1:
            continue  # declared on the derived class only
        if ev in (h["ev"], h.get("ev2")) and (e % 2) in {i % 2 for i in h["on"]} and (coro is None or h["coro"] == coro):
            out.append(hid)
    return out


def check_contract(case):
    """case: {"kind","enabled","instances","handlers":[...],"ops":[...]}"""
    from indi import message as M
    from indi.message import one_parts

    kind = case["kind"]
    rig = Rig(case)
    try:
        ninst = len(rig.drivers)
        saw_change = saw_same = False
        for op in case["ops"]:
            inst = op["inst"] % ninst
            cls = rig.classes[inst]
            e = op["e"] % 2
            el = rig.element(inst, e)
            t = op["op"]
            if kind == "Light" and t == "client":
                t = "set_value"
            if kind == "BLOB" and t == "client":
                t = "set_value"  # uploads through the wire are C06/C08's business
            old = el._value
            others_on = kind == "Switch" and rig.element(inst, 1 - e)._value == "On"
            rig.trace.clear()
            pub_before = len(rig.published)
            where = f"{kind} enabled={case.get('enabled', True)} instances={ninst} op={op} handlers={case['handlers']}"
            returned = [None]
            try:
                if t == "client":
                    wire = WIRE[kind][op["val"] % len(WIRE[kind])]
                    new = DOMAIN[kind][op["val"] % len(WIRE[kind])]
                    part = getattr(one_parts, f"One{kind}")(name=f"E{e}", value=wire)
                    # (libindi clients stamp with one-second resolution, firmware without a clock with a constant)
                    stamp = {0: {}, 1: {"timestamp": "2026-10-03T21:15:07"}, 2: {"timestamp": "1970-01-01T00:00:00"}}[op.get("stamp", 0)]
                    msg = getattr(M, f"New{kind}Vector")(device=f"DEV{inst}", name="V", children=(part,), **stamp)
                    rig.run_sync(lambda: rig.router.process_message(msg, sender=None))
                elif t == "set_value":
                    new = py_value(kind, op["val"])
                    rig.run_sync(lambda: el.set_value(new))
                elif t == "assign":
                    new = py_value(kind, op["val"])

                    def assign():
                        el.value = new

                    rig.run_sync(assign)
                else:  # read
                    new = None
                    returned[0] = rig.run_sync(lambda: el.value)
            except Exception as exc:  # noqa
                f = lib_exception_failure(exc, f"op-raises:{t}")
                raise Failure(f.sig, f"{where}: {f.msg}")
            sync_trace = list(rig.trace[:rig.sync_len])
            rig.loop.drain()
            full_trace = list(rig.trace)
            task_trace = full_trace[len(sync_trace):]
            for ctx in rig.loop._unhandled:
                raise Failure("handler-task-exception", f"{where}: {ctx.get('exception')!r}")
            # -- nobody else's handlers ------------------------------------------------------
            for en in full_trace:
                if en["inst"] != en["el_inst"]:
                    raise Failure(
                        f"cross-instance-handler:{en['ev']}",
                        f"{where}: handler {en['h']} bound to instance {en['inst']} was invoked for an event of instance {en['el_inst']}",
                    )
            wc = [en for en in full_trace if en["ev"] in ("Write", "Change")]
            for en in wc:
                if en["el"] != f"E{e}" or en["el_inst"] != inst:
                    raise Failure(f"foreign-element-handler:{en['ev']}", f"{where}: {en}")
                if (e % 2) not in {i % 2 for i in case["handlers"][en["h"]]["on"]}:
                    raise Failure(f"handler-not-subscribed:{en['ev']}", f"{where}: {en}")
            if t == "read":
                refreshers = [h for h in handlers_for(case, "Read", e, coro=False, cls=cls) if case["handlers"][h].get("refresh")]
                plain_read = handlers_for(case, "Read", e, coro=False, cls=cls)
                got = [en["h"] for en in sync_trace if en["ev"] == "Read" and en["el"] == f"E{e}"]
                for h in plain_read:
                    if h not in got:
                        raise Failure("read-handler-not-run-before-return", f"{where}: sync trace {sync_trace}")
                if refreshers and not (kind == "Switch" and case.get("rule", "AnyOfMany") != "AnyOfMany"):
                    # (under an exclusive switch rule the refreshed value itself is subject to the rule: not modelled)
                    want = py_value(kind, case["handlers"][refreshers[-1]]["refresh"] - 1)
                    if norm(kind, returned[0]) != norm(kind, want):
                        raise Failure("read-returns-stale-value", f"{where}: returned {returned[0]!r}, refreshed to {want!r}")
                if len(rig.published) != pub_before:
                    raise Failure("read-publishes", where)
                continue
            # -- Write ---------------------------------------------------------------------
            has_refresh = any("Read" in (h["ev"], h.get("ev2")) and h.get("refresh") and not h["coro"] and (cls == "leaf" or h.get("level", 0) % 2 == 0) for h in case["handlers"])
            plain_w = handlers_for(case, "Write", e, coro=False, cls=cls) if t in ("client", "set_value") else []
            coro_w = handlers_for(case, "Write", e, coro=True, cls=cls) if t in ("client", "set_value") else []
            got_pw = [en for en in sync_trace if en["ev"] == "Write"]
            if sorted(en["h"] for en in got_pw) != sorted(plain_w):
                raise Failure(f"write-handlers:{'missing' if len(got_pw) < len(plain_w) else 'extra'}:plain:{t}", f"{where}: ran {[en['h'] for en in got_pw]}, expected {plain_w}")
            for en in got_pw:
                if norm(kind, en["new"]) != norm(kind, new):
                    raise Failure("write-handler-payload", f"{where}: {en['new']!r} vs requested {new!r}")
                if en["value_now"] is not old and norm(kind, en["value_now"]) != norm(kind, old) or en["published_now"] != pub_before:
                    raise Failure("write-handler-after-state-change", f"{where}: handler saw value {en['value_now']!r} (old {old!r}), publications {en['published_now']} (before {pub_before})")
                if en["in_task"]:
                    raise Failure("plain-handler-in-task", f"{where}: {en}")
            got_cw = [en for en in task_trace if en["ev"] == "Write"]
            if sorted(en["h"] for en in got_cw) != sorted(coro_w) or any(en["ev"] == "Write" and case["handlers"][en["h"]]["coro"] for en in sync_trace):
                raise Failure(f"write-handlers:coroutine:{t}", f"{where}: coroutine Write handlers ran {[en['h'] for en in got_cw]} as tasks, expected {coro_w}; sync {[en['h'] for en in sync_trace]}")
            for en in got_cw:
                if not en["in_task"] or norm(kind, en["new"]) != norm(kind, new):
                    raise Failure("coroutine-write-handler", f"{where}: {en}")
            vetoed = any(case["handlers"][h].get("veto") for h in plain_w)
            pubs = rig.published[pub_before:]
            changes = [en for en in full_trace if en["ev"] == "Change"]
            if vetoed:
                if el._value is not old and norm(kind, el._value) != norm(kind, old):
                    raise Failure("veto-ignored:value-changed", f"{where}: {old!r} -> {el._value!r}")
                if pubs:
                    raise Failure("veto-ignored:published", f"{where}: {[p.__class__.tag_name() for p in pubs]}")
                if changes:
                    raise Failure("veto-ignored:change-raised", f"{where}: {changes}")
                continue
            # -- Read before publication: plain Read handlers of every element of the vector run before an update is
            # published, and what a refreshing one sets is what the update carries
            exclusive = kind == "Switch" and case.get("rule", "AnyOfMany") != "AnyOfMany"
            if pubs and not vetoed:
                for j in (0, 1):
                    plain_r = handlers_for(case, "Read", j, coro=False, cls=cls)
                    ran = [en["h"] for en in sync_trace if en["ev"] == "Read" and en["el"] == f"E{j}" and en["published_now"] == pub_before]
                    for h in plain_r:
                        if h not in ran:
                            raise Failure("read-handler-not-run-before-publication", f"{where}: plain Read handler {h} of E{j} did not run before the update was published (sync trace {[(en['h'], en['ev'], en['el']) for en in sync_trace]})")
                    refreshers = [h for h in plain_r if case["handlers"][h].get("refresh")]
                    if refreshers and not exclusive:
                        want_r = py_value(kind, case["handlers"][refreshers[-1]]["refresh"] - 1)
                        child = [c for c in pubs[0].children if c.name == f"E{j}"]
                        if child:
                            if kind == "BLOB":
                                import base64

                                okr = base64.b64decode(child[0].value or "") == want_r.binary
                            elif kind == "Number":
                                from harness import refnum

                                okr = abs(refnum.parse(str(child[0].value)) - float(want_r)) < 1e-6
                            else:
                                okr = child[0].value == want_r
                            if not okr:
                                raise Failure("publication-carries-stale-value", f"{where}: E{j} published as {str(child[0].value)[:40]!r}, its Read handler refreshed it to {norm(kind, want_r)!r}")
            if has_refresh:
                continue  # a refreshing Read handler overrides the written value by design; not modelled further
            requested = new
            if kind == "Switch" and new == "Off" and case.get("rule", "AnyOfMany") == "OneOfMany" and not others_on:
                new = "On"  # the switch rule keeps the last On switch On: this is the value actually taken
            if norm(kind, el._value) != norm(kind, new):
                raise Failure(f"value-not-taken:{t}", f"{where}: element holds {el._value!r}, requested {requested!r} (rule gives {new!r})")
            want_pubs = 1 if case.get("enabled", True) else 0
            if len(pubs) != want_pubs:
                raise Failure(f"publication-count:{len(pubs)}-instead-of-{want_pubs}", f"{where}: {[p.__class__.tag_name() for p in pubs]}")
            if pubs:
                p = pubs[0]
                if p.__class__.tag_name() != f"set{kind}Vector" or p.device != f"DEV{inst}":
                    raise Failure("publication-wrong-message", f"{where}: {p.__class__.tag_name()} {p.device}")
                child = [c for c in p.children if c.name == f"E{e}"]
                if len(child) != 1:
                    raise Failure("publication-missing-element", where)
                if kind == "BLOB":
                    import base64

                    ok = base64.b64decode(child[0].value or "") == new.binary
                elif kind == "Number":
                    from harness import refnum

                    ok = abs(refnum.parse(str(child[0].value)) - float(new)) < 1e-6
                else:
                    ok = child[0].value == new
                if not ok:
                    raise Failure("publication-carries-other-value", f"{where}: {child[0].value!r} vs {new!r}")
            changed = norm(kind, old) != norm(kind, new)
            want_changes = sorted(handlers_for(case, "Change", e, cls=cls))
            got_changes = sorted(en["h"] for en in changes)
            if kind == "BLOB" and not changed:
                if got_changes not in ([], want_changes):
                    raise Failure("change-handlers:blob", f"{where}: {got_changes}")
            elif got_changes != (want_changes if changed else []):
                raise Failure(
                    f"change-handlers:{'unchanged-value' if not changed else 'changed-value'}:{'missing' if len(got_changes) < len(want_changes) and changed else 'extra'}",
                    f"{where}: old={old!r} new={new!r}: Change handlers ran {got_changes}, expected {want_changes if changed else []}",
                )
            for en in changes:
                if norm(kind, en["old"]) != norm(kind, old) or norm(kind, en["new"]) != norm(kind, new):
                    raise Failure("change-payload", f"{where}: ({en['old']!r}, {en['new']!r}) vs ({old!r}, {new!r})")
                if case["handlers"][en["h"]]["coro"] != en["in_task"]:
                    raise Failure("change-handler-task-discipline", f"{where}: {en}")
            saw_change = saw_change or changed
            saw_same = saw_same or not changed
        labels = [kind, f"instances={ninst}", "classes=" + "+".join(rig.classes), "enabled" if case.get("enabled", True) else "disabled"]
        if kind == "Switch":
            labels.append("rule-" + case.get("rule", "AnyOfMany"))
        if any(h.get("veto") and not h["coro"] for h in case["handlers"]):
            labels.append("veto")
        if any(h["coro"] for h in case["handlers"]):
            labels.append("coroutine-handler")
        if any(len(set(i % 2 for i in h["on"])) == 2 for h in case["handlers"]):
            labels.append("multi-element-handler")
        return Info(nontrivial=bool(case["handlers"]) and saw_change and saw_same, labels=labels)
    finally:
        rig.close()


def check_nested(case):
    """A handler of element E0 forwards a value to element E1 with set_value() - a write made from inside a handler is a
    write like any other: E1's plain Write handlers run before E1 changes and may veto, then the update, then Change.
    case: {"kind": "Text"|"Number", "fwd_ev": "Write"|"Change", "veto": bool, "coro_too": bool, "via": "client"|"set_value"|"assign"}"""
    from indi import message as M
    from indi.device import Driver, properties
    from indi.device.events import Change, Write, on
    from indi.message import one_parts
    from indi.routing import Client, Router

    kind = case["kind"]
    v0, v1 = (("a", "b") if kind == "Text" else (1.0, 2.5))
    wire0 = {"Text": "a", "Number": "1"}[kind]
    loop = net.new_loop()
    try:
        router = Router()
        published, trace = [], []

        class Rec(Client):
            def message_from_device(self, message):
                published.append(message)

        router.register_client(Rec())
        ecls, vcls = getattr(properties, kind), getattr(properties, kind + "Vector")
        group = properties.Group("G", vectors={"v": vcls("V", elements={"e0": ecls("E0"), "e1": ecls("E1")})})
        e0d, e1d = group.vectors["v"].elements["e0"], group.vectors["v"].elements["e1"]
        main = {"task": None}

        def e1_pubs():
            return sum(1 for m in published if any(c.name == "E1" and norm(kind, _parse(kind, c.value)) == norm(kind, v1) for c in m.children))

        def forward(self_drv, event):
            trace.append(("forward", event.__class__.__name__))
            self_drv.g.v.e1.set_value(v1)

        def w1(self_drv, event):
            trace.append(("write1", event.new_value, self_drv.g.v.e1._value, e1_pubs(), asyncio.current_task() is not main["task"]))
            if case["veto"]:
                event.prevent_default = True

        async def w1c(self_drv, event):
            trace.append(("write1-coro", event.new_value, asyncio.current_task() is not main["task"]))

        def c1(self_drv, event):
            trace.append(("change1", event.old_value, event.new_value))

        dct = {"g": group, "forward": on(e0d, Write if case["fwd_ev"] == "Write" else Change)(forward), "w1": on(e1d, Write)(w1), "c1": on(e1d, Change)(c1)}
        if case.get("coro_too"):
            dct["w1c"] = on(e1d, Write)(w1c)
        drv = type("C14Nested", (Driver,), dct)(name="DEV", router=router)
        old1 = drv.g.v.e1._value

        async def go():
            main["task"] = asyncio.current_task()
            if case["via"] == "client":
                part = getattr(one_parts, f"One{kind}")(name="E0", value=wire0)
                router.process_message(getattr(M, f"New{kind}Vector")(device="DEV", name="V", children=(part,)), sender=None)
            elif case["via"] == "set_value":
                drv.g.v.e0.set_value(v0)
            else:
                drv.g.v.e0.value = v0

        where = f"{case}"
        try:
            loop.run_until_complete(go())
            loop.drain()
        except Exception as exc:  # noqa
            f = lib_exception_failure(exc, "nested-write-raises")
            raise Failure(f.sig, f"{where}: {f.msg}")
        for ctx in loop._unhandled:
            raise Failure("handler-task-exception", f"{where}: {ctx.get('exception')!r}")
        forwarded = [t for t in trace if t[0] == "forward"]
        expect_forward = 1 if (case["fwd_ev"] == "Change" or case["via"] != "assign") else 0  # plain assignment raises no Write
        if len(forwarded) != expect_forward:
            raise Failure("nested:forwarder-count", f"{where}: forwarder ran {len(forwarded)} times, expected {expect_forward}: {trace}")
        if not expect_forward:
            return Info(nontrivial=False, labels=["no-forward"])
        w = [t for t in trace if t[0] == "write1"]
        if len(w) != 1:
            raise Failure("nested:write-handler-count", f"{where}: E1's plain Write handler ran {len(w)} times: {trace}")
        _, new, value_then, pubs_then, in_task = w[0]
        if norm(kind, new) != norm(kind, v1) or in_task:
            raise Failure("nested:write-handler-payload", f"{where}: {w[0]}")
        if norm(kind, value_then) != norm(kind, old1) or pubs_then:
            raise Failure("nested:write-handler-after-state-change", f"{where}: E1's Write handler saw value {value_then!r} (old {old1!r}) and {pubs_then} updates already carrying the new value")
        if case.get("coro_too"):
            wc = [t for t in trace if t[0] == "write1-coro"]
            if len(wc) != 1 or not wc[0][2]:
                raise Failure("nested:coroutine-write-handler", f"{where}: {wc}")
        changes = [t for t in trace if t[0] == "change1"]
        if case["veto"]:
            if norm(kind, drv.g.v.e1._value) != norm(kind, old1) or e1_pubs() or changes:
                raise Failure("nested:veto-ignored", f"{where}: E1={drv.g.v.e1._value!r}, updates carrying it: {e1_pubs()}, Change: {changes}")
        else:
            if norm(kind, drv.g.v.e1._value) != norm(kind, v1):
                raise Failure("nested:value-not-taken", f"{where}: E1={drv.g.v.e1._value!r}")
            if len(changes) != 1 or norm(kind, changes[0][1]) != norm(kind, old1) or norm(kind, changes[0][2]) != norm(kind, v1):
                raise Failure("nested:change-handler", f"{where}: {changes}")
            if not e1_pubs():
                raise Failure("nested:not-published", where)
        if norm(kind, drv.g.v.e0._value) != norm(kind, v0):
            raise Failure("nested:outer-write-lost", f"{where}: E0={drv.g.v.e0._value!r}")
        return Info(nontrivial=True, labels=[kind, case["fwd_ev"], "veto" if case["veto"] else "no-veto", case["via"]])
    finally:
        loop.shutdown()


def _parse(kind, text):
    if kind == "Number" and text is not None:
        from harness import refnum

        return refnum.parse(str(text))
    return text


def nested_cases():
    for kind in ("Text", "Number"):
        for fwd in ("Write", "Change"):
            for veto in (False, True):
                for coro in (False, True):
                    for via in ("client", "set_value", "assign"):
                        yield {"kind": kind, "fwd_ev": fwd, "veto": veto, "coro_too": coro, "via": via}


handler_st = st.fixed_dictionaries(
    {
        "ev": st.sampled_from(["Write", "Write", "Change", "Change", "Read"]),
        "coro": st.sampled_from([False, False, True]),
        "veto": st.sampled_from([False, False, False, True]),
        "on": st.lists(st.integers(0, 1), min_size=1, max_size=2),
        "level": st.integers(0, 1),
        "refresh": st.sampled_from([0, 0, 0, 1, 2]),
        "ev2": st.sampled_from([None, None, None, "Write", "Change", "Read"]),
        "wrapped": st.booleans(),
    }
)
op_st = st.fixed_dictionaries(
    {"op": st.sampled_from(["client", "client", "set_value", "assign", "read"]), "inst": st.integers(0, 1), "e": st.integers(0, 1), "val": st.integers(0, 3), "stamp": st.sampled_from([0, 0, 1, 1, 2])}
)


def case_st(instances):
    return st.fixed_dictionaries(
        {
            "kind": st.sampled_from(list(DOMAIN) + ["Switch"]),
            "rule": st.sampled_from(["AnyOfMany", "OneOfMany", "AtMostOne", "OneOfMany"]),
            "enabled": st.sampled_from([True, True, False]),
            "instances": instances,
            "classes": st.sampled_from([["leaf"], ["leaf"], ["base", "leaf"], ["leaf", "base"], ["base"]]),
            "handlers": st.lists(handler_st, min_size=0, max_size=4),
            "ops": st.lists(op_st, min_size=1, max_size=8),
        }
    )


SUBCHECKS = {"contract": check_contract, "two-instances": check_contract, "nested": check_nested}


def run(ctx):
    ctx.hyp("contract", case_st(st.just(1)), check_contract, ctx.scale(800, 10000))
    ctx.hyp("two-instances", case_st(st.just(2)), check_contract, ctx.scale(400, 4000))
    n = ctx.each("nested", nested_cases(), check_nested, stop_after=3)
    ctx.exhaustive["nested"] = {"complete": True, "n_cases": n, "bound": "2 kinds x forwarding handler on {Write, Change} of E0 x veto on E1 or not x with/without a coroutine Write handler on E1 x outer write via {client message, set_value, assignment}"}
