"""C16 - Client change events are complete and exact."""
from __future__ import annotations

from collections import Counter

from hypothesis import strategies as st

from harness import net, refclient, streams
from harness.core import Failure, HarnessError, Info, lib_exception_failure

ID = "C16"
LEVEL = "exploration"
SHARDS = {"quick": 8, "thorough": 16}
RULE = (
    "histories: a C15 message stream (<= 30 messages over the small device/property/element universe - in half of the cases renamed as a whole to names with brackets, blanks, `*` and `?`, which are ordinary characters in names -) interleaved with callback "
    "registrations and removals and with client writes (assign + submit: no event, mirror unchanged) at arbitrary stream "
    "positions; callbacks have every combination of device/vector/element filter "
    "(absent, matching, non-matching) and event type (any, value, state, definition), are plain or coroutine functions - given as a "
    "function, a functools.partial, a bound method, a bound method of an object nothing else refers to, or a callable object -, may raise, "
    "may remove themselves when first called (one-shot), and are removed by id or by criteria. 2-5 callbacks are registered up "
    "front with filters biased towards 'absent' (otherwise a one-shot callback is never followed by another callback matching the "
    "same event). Oracle: a filter-less probe registered first gives the dispatched sequence; per message it must equal the event "
    "multiset the reference interpreter derives (state/value events iff changed, old = previous new, per definition epoch; "
    "initial None->v events required when v is not None, tolerated otherwise; one definition event per def); every other "
    "callback's log equals the probe's sequence filtered by its predicate and registration window; the last value event of every "
    "element carries its current value; where a BLOB update declares a size that contradicts its payload the client may take it or "
    "leave it, and a value event is required exactly when it took it. Non-trivial: >= 2 callbacks with different filters and >= 1 removal mid-stream."
)
ASSUMPTIONS = [
    "in-dispatch removal is generated only as self-removal",
    "BLOB re-uploads with identical bytes may or may not raise a value event (BLOB values have identity equality)",
    "no BLOB and an empty payload without a format are one value; an empty payload with a format is a value of its own",
]

ETYPES = ["Base", "Value", "State", "Definition"]


def etype_class(name):
    from indi.client import events

    return {"Base": events.BaseEvent, "Value": events.ValueUpdate, "State": events.StateUpdate, "Definition": events.DefinitionUpdate}[name]


def ev_tuple(event):
    """Library event -> comparable tuple (kind, device, vector, element, old, new)."""
    from indi.client import events

    dev = event.device.name if event.device is not None else None
    vec = event.vector.name if event.vector is not None else None

    def val(v):
        if hasattr(v, "binary"):
            return (v.binary, v.format or "")
        return refclient.norm(v)

    if isinstance(event, events.ValueUpdate):
        return ("value", dev, vec, event.element.name, val(event.old_value), val(event.new_value))
    if isinstance(event, events.StateUpdate):
        return ("state", dev, vec, None, event.old_state, event.new_state)
    if isinstance(event, events.DefinitionUpdate):
        return ("definition", dev, vec, None, None, None)
    return ("other", dev, vec, None, None, None)


def matches(cb, ev):
    kind, dev, vec, el = ev[:4]
    if cb["device"] is not None and cb["device"] != dev:
        return False
    if cb["vector"] is not None and cb["vector"] != vec:
        return False
    if cb["element"] is not None and cb["element"] != el:
        return False
    return cb["etype"] == "Base" or cb["etype"].lower() == kind


def _blob_norm(v):
    """None and an empty payload without a format are the same value; an empty payload WITH a format is not (C08: an
    empty BLOB keeps its format), so an application following the events must learn about it."""
    if v is None or (isinstance(v, tuple) and len(v[0]) == 0 and not v[1]):
        return None
    return v


def split_expected(ref_events, is_def, ref_before):
    """-> (required Counter, optional Counter) of event tuples for one message."""
    req, opt = Counter(), Counter()
    for ev in ref_events:
        kind, dev, vec, el, old, new = ev
        if kind == "value":
            blobish = isinstance(new, tuple) or isinstance(old, tuple)
            if is_def and new is None:
                opt[(kind, dev, vec, el, None, None)] += 1
                continue
            if blobish:
                new_n, old_n = _blob_norm(new), _blob_norm(old)
                # events for BLOBs are compared on (bytes, format); a BLOB with neither bytes nor format == none
                t = (kind, dev, vec, el, "*", new_n)
                (opt if old_n == new_n else req)[t] += 1
                continue
        req[ev] += 1
    return req, opt


def normalize_got(ev):
    kind, dev, vec, el, old, new = ev
    if kind == "value" and (isinstance(new, tuple) or isinstance(old, tuple)):
        return (kind, dev, vec, el, "*", _blob_norm(new))
    return ev


def check_events(case):
    """case: {"items": [...], "callbacks": [cb...]}
    cb: {"device","vector","element","etype","coro","raises","oneshot","reg_at","rm": None|{"at","by"}}"""
    from indi.client.client import BaseClient

    case = streams.rename_case(case)
    loop = net.new_loop()
    try:
        class C(BaseClient):
            def send_message(self, msg):
                pass

        client = C()
        ref = refclient.RefClient()
        probe_log = []
        client.onevent(callback=lambda e: probe_log.append(ev_tuple(e)))
        n = len(case["items"])
        cbs = case["callbacks"]
        logs = [[] for _ in cbs]
        uids = [None] * len(cbs)
        fns = [None] * len(cbs)
        active = [False] * len(cbs)
        fired = [False] * len(cbs)

        owners = {}

        def make(i, cb):
            def body(event):
                logs[i].append(ev_tuple(event))
                if cb["oneshot"]:
                    client.rmonevent(uuid=uids[i])
                if cb["raises"]:
                    raise RuntimeError("callback failure (generated)")

            shape = cb.get("shape", "function")
            if cb["coro"]:
                async def fn(event):
                    body(event)

                async def fn2(extra, event):
                    body(event)
            else:
                def fn(event):
                    body(event)

                def fn2(extra, event):
                    body(event)
            # applications register whatever is callable: plain functions, functools.partial objects, bound methods,
            # instances with __call__ (the latter only for plain callbacks: asyncio does not see them as coroutine functions)
            if shape == "partial":
                import functools

                return functools.partial(fn2, "extra")
            if shape == "method-temp":
                # a listener object nobody but the subscription refers to (removed, if at all, by id)
                return type("Listener", (), {"on_event": fn2})().on_event
            if shape == "method":
                inst = type("Listener", (), {"on_event": fn2})()
                owners[i] = inst  # removal by callback accesses `inst.on_event` again: an equal, not identical, object
                return inst.on_event
            if shape == "object" and not cb["coro"]:
                return type("Listener", (), {"__call__": fn2})()
            return fn

        labels = set()
        removed_mid = False
        for pos in range(n + 1):
            for i, cb in enumerate(cbs):
                if cb["reg_at"] % (n + 1) == pos and uids[i] is None:
                    fns[i] = make(i, cb)
                    uids[i] = client.onevent(callback=fns[i], device=cb["device"], vector=cb["vector"], element=cb["element"], event_type=etype_class(cb["etype"]))
                    active[i] = True
                    if cb.get("shape") == "method-temp":
                        fns[i] = None  # the harness keeps no reference to the listener or its bound method
                        import gc

                        gc.collect(0)  # (the young generation is enough for an object created a moment ago; a full pass grows with the heap)
            for i, cb in enumerate(cbs):
                rm = cb.get("rm")
                if rm and uids[i] is not None and rm["at"] % (n + 1) == pos and pos > cb["reg_at"] % (n + 1):
                    if rm["by"] == "id" or cb.get("shape") == "method-temp":
                        client.rmonevent(uuid=uids[i])
                        active[i] = False
                    else:
                        plain = cb["device"] is None and cb["vector"] is None and cb["element"] is None and cb["etype"] == "Base"
                        kwargs = dict(device=cb["device"], vector=cb["vector"], element=cb["element"], event_type=etype_class(cb["etype"]))
                        if rm["by"] == "criteria+callback" or plain:
                            kwargs["callback"] = owners[i].on_event if owners.get(i) is not None else fns[i]
                            active[i] = False
                        else:
                            # removes every callback whose own filter equals the given criteria (None = any)
                            for j, other in enumerate(cbs):
                                if uids[j] is not None and all(
                                    crit is None or crit == other[f] for f, crit in (("device", cb["device"]), ("vector", cb["vector"]), ("element", cb["element"]))
                                ) and other["etype"] == cb["etype"]:
                                    active[j] = False
                        client.rmonevent(**kwargs)
                        labels.add("removed-by-criteria")
                    if 0 < pos < n:
                        removed_mid = True
            if pos == n:
                break
            it = case["items"][pos]
            msg = streams.to_library(it)
            # the application also WRITES while it listens: a request sent to the device changes nothing in the mirror
            for wr in case.get("writes", []):
                if wr["at"] % n == pos:
                    probe_log.clear()
                    try:
                        what = refclient.client_write(client, wr["k"], submit=wr.get("submit", True))
                    except Exception as e:  # noqa
                        f = lib_exception_failure(e, "client-write")
                        raise Failure(f.sig, f"before message {pos}: {f.msg}")
                    if what is None:
                        continue
                    labels.add("client-write-mid-stream")
                    if probe_log:
                        raise Failure("client-write:events-raised", f"before message {pos}: writing {what} raised {sorted(map(str, probe_log))}")
                    from harness.props.c15 import diff_views

                    d = diff_views(refclient.library_view(client), ref.view())
                    if d:
                        raise Failure(f"client-write:mirror-changed:{d[0]}", f"before message {pos}: writing {what}: {d[1]}")
            probe_log.clear()
            for lg in logs:
                lg.clear()
            state_before = None

            async def feed():
                client.process_message(msg)

            try:
                loop.run_until_complete(feed())
                loop.drain()
            except Exception as e:  # noqa
                f = lib_exception_failure(e, f"process_message:{it['spec']['kind']}")
                raise Failure(f.sig, f"message {pos} {it['spec']}: {f.msg}")
            view_before = ref.view()
            ref_events = ref.apply(it["spec"])
            is_def = it["spec"]["kind"].startswith("def")
            req, opt = split_expected(ref_events, is_def, state_before)
            # an update the client may or may not take (BLOB whose declared size contradicts its payload): its event is optional
            # ... but it must agree with what the client did: taken => announced, left alone => no event
            lv = refclient.library_view(client)
            if ref.ambiguous:
                labels.add("blob-size-contradicts-payload")
            for t in list(req):
                if t[0] == "value" and (t[1], t[2], t[3]) in ref.ambiguous:
                    n_ev = req.pop(t)
                    def _nbv(v):  # the views' normal form: no BLOB == empty payload
                        return None if (v is None or len(v[0]) == 0) else (v[0], v[1])

                    before = view_before.get(t[1], {}).get(t[2], (None, None, None, None, {}))[4].get(t[3], (None, None))[1]
                    try:
                        now = lv[t[1]][t[2]][4][t[3]][1]
                    except (KeyError, IndexError, TypeError):
                        now = None
                    taken = now == _nbv(t[5])
                    if before == _nbv(t[5]):
                        opt[t] += n_ev  # cannot tell the two outcomes apart
                    elif taken:
                        req[t] += n_ev
                    # else: left alone - an event announcing the new value would be a lie (it is neither required nor optional)
            ref.resolve(lv)
            got = Counter(normalize_got(e) for e in probe_log)
            missing = req - got
            extra = got - req - opt
            if missing or extra:
                what = "missing" if missing else "extra"
                kind = (list(missing) or list(extra))[0][0]
                raise Failure(
                    f"dispatched-events:{what}:{kind}:{'def' if is_def else it['spec']['kind'][:3]}",
                    f"message {pos} {it['spec']}: dispatched {sorted(map(str, probe_log))}; missing {sorted(map(str, missing))}; extra {sorted(map(str, extra))}",
                )
            # every other callback: the probe's sequence filtered by its predicate / window
            for i, cb in enumerate(cbs):
                if uids[i] is None:
                    want = []
                elif not active[i]:
                    want = []
                else:
                    want = [e for e in probe_log if matches(cb, e)]
                    if cb["oneshot"] and want:
                        # a plain one-shot callback removes itself during its first call; a coroutine one runs as a
                        # task after the message has been dispatched, so every event of that message still reaches it
                        if not cb["coro"]:
                            want = want[:1]
                        active[i] = False
                        fired[i] = True
                        # label: is another active callback registered later matching the same event?
                        for j in range(len(cbs)):
                            if j != i and uids[j] is not None and active[j] and matches(cbs[j], want[0]):
                                labels.add("oneshot-followed-by-matching-callback")
                if Counter(logs[i]) != Counter(want):
                    kind = "after-removal" if (uids[i] is not None and not active[i] and not (cb["oneshot"] and fired[i] and want)) else "filter"
                    nextto = "oneshot-present" if any(c["oneshot"] for c in cbs) else "no-oneshot"
                    raise Failure(
                        f"callback-log:{kind}:{nextto}:{'coro' if cb['coro'] else 'plain'}",
                        f"message {pos} {it['spec']['kind']}: callback {i} {cb} received {logs[i]}, expected {want} (dispatched: {probe_log})",
                    )
                if cb["raises"] and want:
                    labels.add("raising-callback-hit")
                if cb["coro"] and want:
                    labels.add("coroutine-callback-hit")
        # chain end: the last value event of every element carries its current value
        view = refclient.library_view(client)
        want_view = ref.view()
        if view != want_view:
            raise Failure("mirror-differs", f"{view} vs {want_view}")
        filters = {(c["device"], c["vector"], c["element"], c["etype"]) for c in cbs}
        return Info(nontrivial=len(filters) >= 2 and removed_mid, labels=sorted(labels) + [f"callbacks={min(len(cbs), 5)}"])
    finally:
        loop.shutdown()


absent_biased = lambda values: st.one_of(st.none(), st.none(), st.sampled_from(values))  # noqa: E731

callback_st = st.fixed_dictionaries(
    {
        "device": absent_biased(["A", "B", "AB", "Z"]),
        "vector": absent_biased(["P", "PQ", "Q", "NOSUCH"]),
        "element": absent_biased(["x", "xy", "y", "nosuch"]),
        "etype": st.sampled_from(["Base", "Base", "Value", "State", "Definition"]),
        "coro": st.sampled_from([False, False, True]),
        "shape": st.sampled_from(["function", "function", "partial", "method", "object", "method-temp"]),
        "raises": st.sampled_from([False, False, False, True]),
        "oneshot": st.sampled_from([False, False, True]),
        "reg_at": st.sampled_from([0, 0, 0, 1, 2, 5, 9]),
        "rm": st.none() | st.fixed_dictionaries({"at": st.integers(1, 30), "by": st.sampled_from(["id", "criteria", "criteria+callback"])}),
    }
)
case_st = st.fixed_dictionaries({
    "items": streams.stream(30), "callbacks": st.lists(callback_st, min_size=2, max_size=6),
    "writes": st.lists(st.fixed_dictionaries({"at": st.integers(0, 40), "k": st.integers(0, 30), "submit": st.booleans()}), max_size=3),
    "rename": st.sampled_from([0, 0, 1, 2]),
})

SUBCHECKS = {"events": check_events}


def run(ctx):
    ctx.hyp("events", case_st, check_events, ctx.scale(700, 6000))
    if ctx.shard == 0 and ctx.tier == "quick" and not ctx.violations and not ctx.known_hits:
        pass
    key = "events:oneshot-followed-by-matching-callback"
    ctx.notes["oneshot_followed_by_matching_callback"] = ctx.classes.get(key, 0)
    if ctx.classes.get(key, 0) == 0 and not ctx.violations and ctx.sub_evals["events"] >= 200:
        raise HarnessError("C16 generator blind spot: no self-removing callback was followed by another matching callback")
