"""C10 - Number rendering and parsing are mutually inverse and follow INDI conventions."""
from __future__ import annotations

import itertools
import math

from hypothesis import strategies as st

from harness import refnum
from harness.core import Failure, Info

ID = "C10"
LEVEL = "exploration"
SHARDS = {"quick": 8, "thorough": 16}
RULE = (
    "'grid': exhaustive sweep of the complete resolution grid of each sexagesimal format on [-360, 360] degrees (%.3m every "
    "minute, %.5m every tenth of a minute, %.6m every second - strided in the quick tier -, strided sub-grids for %.8m/%.9m), "
    "each point also shifted by +-0.49 resolution units; 'formats': Hypothesis over printf formats %[-+ 0#]*[width][.prec]{d,f} "
    "(widths up to 80, precisions up to 60) x floats in [-1e9, 1e9] mixed with constructed classes (negatives in (-1,0), values next to a field carry, integers, "
    "width-overflowing); 'sexa': the same value classes x %[w].{3,5,6,8,9}m; 'grammar': exhaustive enumeration of the INDI "
    "number grammar (sign?, integer | decimal | 2-3 fields with ':' ';' blank, 1-2 digit minor fields, optional fraction on the "
    "last field) over the digit alphabet {0,1,5,9} up to length 8, crossed with 8 format classes; 'grammar-hyp': longer strings; 'element': a driver's Number element holding a value its format cannot express publishes it, a client sends exactly that text back, the element must hold what the text denotes. "
    "Oracle: rendered text is accepted by OneNumber/DefNumber, denotes v within one resolution unit under harness/refnum.py "
    "(sign applies to the whole magnitude) and str_to_num returns v within the same tolerance; every grammar string is accepted "
    "by the validator and parsed to refnum.parse(s). Non-trivial: negative value, or within one resolution unit of a field "
    "carry, or padded/flagged rendering, or notation different from the format's own. Grid/grammar points are distinct by "
    "construction (enumerated once, blocks disjoint); Hypothesis cases are de-duplicated by canonical JSON."
)
ASSUMPTIONS = [
    "tolerance is one full resolution unit of the format plus 1e-12 relative (float representation)",
    "a minutes/seconds field rendered as 60 is not flagged: it denotes the right value under INDI's scanner",
    "harness/refnum.py is the trusted statement of the INDI number conventions",
]

SEXA = {3: 60, 5: 600, 6: 3600, 8: 36000, 9: 360000}


def _lib():
    from indi.device import values
    from indi.message import def_parts, one_parts

    return values, one_parts, def_parts


def _render_class(fmt, t, v):
    c = []
    if t != t.strip() or (refnum._PRINTF.match(fmt) and any(f in refnum._PRINTF.match(fmt).group(1) for f in "+ #0-")):
        c.append("padded-or-flagged")
    if refnum.is_sexagesimal(fmt):
        c.append("sexagesimal")
    if v < 0:
        c.append("negative")
    return "+".join(c) or "plain"


def render_point(fmt, v):
    """Oracle for one (format, value). Returns nontrivial flag."""
    values, one_parts, def_parts = _lib()
    res = refnum.resolution(fmt)
    tol = res * (1 + 1e-9) + abs(v) * 1e-12
    try:
        t = values.num_to_str(v, fmt)
    except Exception as e:  # noqa
        raise Failure("render-raises", f"num_to_str({v!r}, {fmt!r}): {type(e).__name__}: {e}")
    cls = _render_class(fmt, t, v)
    if int(abs(v) * 1000) % 8 == 0:
        # the rendering is a function of (value, format) alone: not of interpreter-wide state an application may have
        # changed for its own purposes (a deterministic 1-in-8 sample of the points is rendered again under a low-precision
        # decimal context)
        import decimal

        with decimal.localcontext() as dctx:
            dctx.prec = 5
            try:
                t2 = values.num_to_str(v, fmt)
            except Exception as e:  # noqa
                raise Failure("render-depends-on-ambient-state:raises", f"num_to_str({v!r}, {fmt!r}) under decimal prec=5: {type(e).__name__}: {e}")
        if t2 != t:
            raise Failure(f"render-depends-on-ambient-state:{cls}", f"num_to_str({v!r}, {fmt!r}) = {t!r}, but {t2!r} under a decimal context with prec=5")
    try:
        one_parts.OneNumber(name="n", value=t)
        def_parts.DefNumber(name="n", format=fmt, min=0, max=0, step=0, value=t)
    except Exception as e:  # noqa
        raise Failure(f"validator-rejects-rendered:{cls}", f"{fmt!r} renders {v!r} as {t!r}, rejected: {e}")
    try:
        ref = refnum.parse(t)
    except ValueError:
        raise Failure(f"rendered-not-a-number:{cls}", f"{fmt!r} renders {v!r} as {t!r}")
    if not abs(ref - v) <= tol:
        raise Failure(f"rendered-denotes-wrong-value:{cls}", f"{fmt!r} renders {v!r} as {t!r} which denotes {ref!r} (tolerance {tol!r})")
    try:
        back = values.str_to_num(t, fmt)
    except Exception as e:  # noqa
        raise Failure(f"parse-rejects-own-rendering:{cls}", f"str_to_num({t!r}, {fmt!r}) [rendering of {v!r}]: {type(e).__name__}: {e}")
    if not isinstance(back, (int, float)) or isinstance(back, bool) or not abs(back - v) <= tol:
        raise Failure(f"roundtrip-wrong-value:{cls}", f"{fmt!r}: {v!r} -> {t!r} -> {back!r} (tolerance {tol!r})")
    near_carry = False
    if refnum.is_sexagesimal(fmt):
        frac = abs(v) % 1.0
        near_carry = (1.0 - frac) <= 2 * res or ((frac * 60) % 1.0) > 1 - 2 * res * 60
    return v < 0 or near_carry or cls.startswith("padded")


def check_render(case):
    """case: {"fmt": str, "v": float}"""
    nt = render_point(case["fmt"], case["v"])
    labs = [("sexa" if refnum.is_sexagesimal(case["fmt"]) else "printf")]
    if case["v"] < 0:
        labs.append("negative")
    if -1 < case["v"] < 0:
        labs.append("negative-above-minus-one")
    return Info(nontrivial=nt, labels=labs)


def check_grid_block(case):
    """case: {"frac": 3|5|6|8|9, "width": int|"" , "k0": int, "k1": int, "stride": int}
    grid points v = k / base for k in range(k0, k1, stride), each also shifted by +-0.49/base."""
    base = SEXA[case["frac"]]
    fmt = f"%{case.get('width', '')}.{case['frac']}m"
    n = nt = 0
    for k in range(case["k0"], case["k1"], case.get("stride", 1)):
        for shift in case.get("shifts", (0.0, 0.49, -0.49)):
            v = (k + shift) / base
            try:
                nt += bool(render_point(fmt, v))
            except Failure as f:
                f.min_case = {**case, "k0": k, "k1": k + 1, "stride": 1, "shifts": [shift]}
                raise
            n += 1
    return Info(n_eval=n, n_nontrivial=nt, label_counts={f"points-.{case['frac']}m": n})


# --------------------------------------------------------------------------------------------
# parsing: the INDI number grammar


def _notation(s):
    t = s.strip().lstrip("+-")
    seps = [c for c in t if c in ":; "]
    if not seps:
        kind = "decimal" if "." in t else "integer"
    else:
        kind = f"sexa{len(seps) + 1}" + {":": "", ";": "-semicolon", " ": "-blank"}[seps[0]]
    return kind


def _fmt_class(fmt):
    if refnum.is_sexagesimal(fmt):
        return "m" + fmt.split(".")[1][0]
    return fmt[-1]


def own_notation(fmt, s):
    n = _notation(s)
    if refnum.is_sexagesimal(fmt):
        frac = int(fmt.split(".")[1][:-1])
        want = "sexa2" if frac in (3, 5) else "sexa3"
        return n == want
    return n in ("integer", "decimal")


def parse_point(s, fmt):
    values, one_parts, def_parts = _lib()
    want = refnum.parse(s)
    neg = "-neg" if s.strip().startswith("-") else ""
    try:
        one_parts.OneNumber(name="n", value=s)
    except Exception as e:  # noqa
        raise Failure(f"validator-rejects-indi-number:{_notation(s)}", f"OneNumber(value={s!r}): {e}")
    try:
        got = values.str_to_num(s, fmt)
    except Exception as e:  # noqa
        raise Failure(f"parse-rejects:{_notation(s)}-for-{_fmt_class(fmt)}", f"str_to_num({s!r}, {fmt!r}): {type(e).__name__}: {e}")
    if not isinstance(got, (int, float)) or isinstance(got, bool) or not abs(got - want) <= 1e-9 * max(1.0, abs(want)):
        raise Failure(f"parse-wrong-value:{_notation(s)}{neg}-for-{_fmt_class(fmt)}", f"str_to_num({s!r}, {fmt!r}) = {got!r}, denotes {want!r}")
    return want < 0 or not own_notation(fmt, s)


PARSE_FORMATS = ["%f", "%d", "%.2f", "%6.3m", "%8.5m", "%9.6m", "%11.8m", "%12.9m"]
DIGITS = "0159"


def grammar_strings(max_len=8):
    """Every string of the grammar up to max_len over DIGITS, minor fields 0..59 in 1-2 digits."""
    ints = ["".join(p) for n in (1, 2, 3) for p in itertools.product(DIGITS, repeat=n)]
    minors = [m for m in ["".join(p) for n in (1, 2) for p in itertools.product(DIGITS, repeat=n)] if int(m) < 60]
    fracs = ["".join(p) for n in (1, 2) for p in itertools.product(DIGITS, repeat=n)]
    out = []
    for sign in ("", "-", "+"):
        for i in ints:
            out.append(sign + i)
            for f in fracs:
                out.append(f"{sign}{i}.{f}")
            for sep in ":; ":
                for m in minors:
                    out.append(f"{sign}{i}{sep}{m}")
                    for f in fracs[:4]:
                        out.append(f"{sign}{i}{sep}{m}.{f}")
                    for m2 in minors:
                        out.append(f"{sign}{i}{sep}{m}{sep}{m2}")
                        for f in fracs[:2]:
                            out.append(f"{sign}{i}{sep}{m}{sep}{m2}.{f}")
    seen = set()
    res = []
    for s in out:
        if len(s) <= max_len and s not in seen:
            seen.add(s)
            res.append(s)
    return res


def check_grammar_block(case):
    """case: {"strings": [..], "formats": [..]}"""
    n = nt = 0
    for s in case["strings"]:
        for fmt in case["formats"]:
            try:
                nt += bool(parse_point(s, fmt))
            except Failure as f:
                f.min_case = {"strings": [s], "formats": [fmt]}
                raise
            n += 1
    return Info(n_eval=n, n_nontrivial=nt, label_counts={"strings": len(case["strings"])})


def check_parse(case):
    nt = parse_point(case["s"], case["fmt"])
    return Info(nontrivial=nt, labels=[_notation(case["s"]), "fmt-" + _fmt_class(case["fmt"])])


# --------------------------------------------------------------------------------------------
# generators


def value_strategy():
    carry = st.builds(
        lambda k, frac, sgn: sgn * (k + frac),
        st.integers(0, 400),
        st.sampled_from([59.5 / 60, 59.9 / 60, 59.95 / 60, 59.99 / 60, 59.9999 / 60, 0.999999, 29.5 / 60, (59 + 59.95 / 60) / 60, (59 + 59.5 / 60) / 60, (59 + 59.995 / 60) / 60, 0.5, 1 / 120, 1 / 7200]),
        st.sampled_from([1, -1]),
    )
    return st.one_of(
        st.floats(-1e9, 1e9, allow_nan=False, allow_infinity=False),
        st.floats(-1, 0, exclude_min=True, exclude_max=True),
        st.floats(-400, 400),
        carry,
        st.integers(-10**9, 10**9).map(float),
        st.integers(-400, 400),
        st.sampled_from([0.0, -0.0, 1e9, -1e9, 0.1, -0.1, 123456789.125, 99999.99]),
    )


printf_format = st.builds(
    lambda flags, width, prec, conv: "%" + "".join(sorted(set(flags))) + width + (f".{prec}" if prec is not None else "") + conv,
    st.lists(st.sampled_from("-+ 0#"), max_size=3),
    st.sampled_from(["", "", "1", "4", "8", "12", "30", "80"]),  # (printf puts no limit on width or precision)
    st.none() | st.integers(0, 8) | st.sampled_from([20, 60]),
    st.sampled_from(["f", "f", "d"]),
)
sexa_format = st.builds(lambda w, f: f"%{w}.{f}m", st.sampled_from(["", "6", "8", "10", "12"]), st.sampled_from([3, 5, 6, 8, 9]))


def _fix_value(fmt, v):
    # %d accepts ints and floats; keep integers as ints half of the time to cover both
    return v


_ELEMENT_SEQ = [0]


def check_element(case):
    """Render-then-parse through a driver's Number element: the driver holds v (usually not expressible in the element's
    format) and publishes it as text t; a client sends t back (KStars sends every member of a vector, edited or not);
    the element must then hold the value t denotes. case: {"fmt": str, "v": float, "pad": str}"""
    import xml.etree.ElementTree as ET

    from indi import message as M
    from indi.device import Driver, properties
    from indi.message import one_parts
    from indi.routing import Client, Router

    fmt, v = case["fmt"], case["v"]
    _ELEMENT_SEQ[0] += 1
    cls = type(f"C10Drv{_ELEMENT_SEQ[0]}", (Driver,), {
        "g": properties.Group("G", vectors={"v": properties.NumberVector("V", elements={"e": properties.Number("E", format=fmt, min=-1e12, max=1e12, step=0), "f": properties.Number("F", format="%f", min=0, max=0, step=0)})}),
    })
    router = Router()
    texts = []

    class Rec(Client):
        def message_from_device(self, m):
            if m.__class__.tag_name() == "setNumberVector":
                root = ET.fromstring(m.to_string())
                for c in root:
                    if c.get("name") == "E":
                        texts.append(c.text)

    rec = Rec()
    router.register_client(rec)
    drv = cls(name="DEV", router=router)
    try:
        drv.g.v.e.value = v
    except Exception as exc:  # noqa
        raise Failure(f"element:assign-raises:{type(exc).__name__}", f"{case}: {exc}")
    if not texts or texts[-1] is None:
        return Info(nontrivial=False, labels=["nothing-published"])
    t = texts[-1]
    sent = t.strip()  # (what the wire parser hands on: text values arrive stripped)
    try:
        want = refnum.parse(sent)
    except Exception:  # noqa - what the element publishes is judged by the other sub-checks
        return Info(nontrivial=False, labels=["published-text-not-a-number"])
    try:
        router.process_message(M.NewNumberVector(device="DEV", name="V", children=(one_parts.OneNumber(name="E", value=sent),)), sender=rec)
    except Exception as exc:  # noqa
        raise Failure(f"element:write-raises:{type(exc).__name__}", f"{case}: sending back {sent!r}: {type(exc).__name__}: {exc}")
    got = drv.g.v.e._value
    try:
        gotf = float(got)
    except Exception:  # noqa
        raise Failure("element:value-not-a-number-after-write", f"{case}: the element holds {got!r} after {sent!r} was written")
    if abs(gotf - want) > 1e-9 * max(1.0, abs(want)):
        raise Failure("element:text-sent-back-not-taken-at-the-value-it-denotes", f"{case}: the element held {v!r}, published {t!r}; a client sent {sent!r} (= {want!r}); the element now holds {got!r}")
    return Info(nontrivial=abs(v - want) > 1e-12, labels=[fmt[-1], "inexact" if abs(v - want) > 1e-12 else "exact"])


ELEMENT_FORMATS = ["%.6m", "%.3m", "%.5m", "%.8m", "%.9m", "%9.6m", "%.0f", "%d", "%.2f", "%5.1f", "%f", "%08.3f", "%+.1f", "%4d"]


@st.composite
def element_case(draw):
    fmt = draw(st.sampled_from(ELEMENT_FORMATS))
    k = draw(st.integers(-200000, 200000))
    off = draw(st.sampled_from([0.0, 0.1, 0.3, 0.4, 0.45, -0.2, -0.45]))
    res = refnum.resolution(fmt)
    return {"fmt": fmt, "v": (k + off) * res, "pad": draw(st.sampled_from(["", "", " ", "  "]))}


SUBCHECKS = {
    "element": check_element,
    "grid": check_grid_block,
    "formats": check_render,
    "sexa": check_render,
    "grammar": check_grammar_block,
    "grammar-hyp": check_parse,
}


def grid_blocks(tier):
    block = 600
    for frac, base in SEXA.items():
        lo, hi = -360 * base, 360 * base
        if frac in (3, 5):
            stride = 1
        elif frac == 6:
            stride = 1 if tier == "thorough" else 7
        elif frac == 8:
            stride = 11 if tier == "thorough" else 97
        else:
            stride = 101 if tier == "thorough" else 997
        span = block * stride
        for k0 in range(lo, hi + 1, span):
            yield {"frac": frac, "width": [6, 8, 9, 11, 12][list(SEXA).index(frac)], "k0": k0, "k1": min(k0 + span, hi + 1), "stride": stride}


def run(ctx):
    n = ctx.each("grid", grid_blocks(ctx.tier), check_grid_block, stop_after=4, timeout=120)
    ctx.exhaustive["grid"] = {
        "n_blocks": n,
        "complete": True,
        "bound": "[-360,360] degrees; .3m/.5m every grid point; .6m every point (thorough) / stride 7 (quick); .8m stride 11/97; .9m stride 101/997; each point also +-0.49 unit",
    }
    strings = grammar_strings(8 if ctx.tier == "thorough" else 7)
    blocks = [{"strings": strings[i:i + 200], "formats": PARSE_FORMATS} for i in range(0, len(strings), 200)]
    n = ctx.each("grammar", blocks, check_grammar_block, stop_after=6, timeout=120)
    ctx.exhaustive["grammar"] = {"n_blocks": n, "n_strings_total": len(strings), "complete": True, "bound": f"length <= {8 if ctx.tier == 'thorough' else 7}, digits {DIGITS}, x {len(PARSE_FORMATS)} formats"}
    ctx.hyp("formats", st.fixed_dictionaries({"fmt": printf_format, "v": value_strategy()}), check_render, ctx.scale(1500, 40000))
    ctx.hyp("sexa", st.fixed_dictionaries({"fmt": sexa_format, "v": value_strategy().filter(lambda v: abs(v) <= 1e9)}), check_render, ctx.scale(1500, 40000))
    ctx.hyp("element", element_case(), check_element, ctx.scale(1500, 30000))
    from harness import gen

    long_numbers = st.one_of(
        gen.number_text(),
        # the INDI number grammar has no length limit: exact decimal expansions, zero padding
        st.builds(lambda sign, lead, digits, frac: f"{sign}{'0' * lead}{digits}.{frac}", st.sampled_from(["", "-", "+"]), st.sampled_from([0, 3, 70]),
                  st.integers(0, 10**9), st.sampled_from(["5", "000000000100000000008180305391403130954586231382563710212707519531250", "0" * 90])),
        st.builds(
            lambda sign, a, sep, b, c, frac: f"{sign}{a}{sep}{b}" + (f"{sep}{c}" if c is not None else "") + (f".{frac}" if frac else ""),
            st.sampled_from(["", "-", "+"]), st.integers(0, 99999), st.sampled_from([":", ";", " "]), st.integers(0, 59),
            st.none() | st.integers(0, 59), st.sampled_from(["", "5", "25", "999"]),
        ),
    )
    ctx.hyp("grammar-hyp", st.fixed_dictionaries({"s": long_numbers, "fmt": st.sampled_from(PARSE_FORMATS) | printf_format.filter(lambda f: True) | sexa_format}), check_parse, ctx.scale(1000, 30000))
