"""C18 - Every way a connection can end leaves the router clean and the others served."""
from __future__ import annotations

import itertools

from hypothesis import strategies as st

from harness import session
from harness.core import Failure, Info

ID = "C18"
LEVEL = "fault_enumeration"
SHARDS = {"quick": 8, "thorough": 16}
RULE = (
    "fault enumeration: session scripts for 2-3 concurrent connections (handshake, enableBLOB Never/Also/Only, client writes, "
    "device text and BLOB traffic, connections that announce devices of their own (def*Vector from a peer) and writes to those; a fixed catalogue of scripts enumerated exhaustively plus Hypothesis-drawn scripts) x fault kind "
    "{EOF, read error, EOF inside a message, read error inside a message, junk then EOF, exception (RuntimeError, StopIteration, KeyError) while one of its messages is handled "
    "by a device - also with more traffic behind it in the same read -, write "
    "error on the peer followed by read error, EOF of two connections in the same loop iteration} x EVERY step index of the script x victim connection x transport of the victim "
    "{TCP handler_func, TTY handle}, on the real connection handlers over fake streams. Oracle after the fault and a settle: the "
    "victim's handler task has finished, its writer is closed (TCP), it is in neither router.clients nor router.blob_routing nor "
    "ConnectionHandler.connections, and no delivery is attempted to it afterwards (spy); every other connection is still "
    "registered and open and receives exactly the later device traffic its own policy admits; a reconnecting peer starts from "
    "default settings (text updates, no BLOB until it asks again). 'soak': 60 (quick) / 400 (thorough) connections come and end on "
    "ONE router, each by the same kind of fault or rotating through the kinds; after every ending the router is clean and a "
    "connection that has been there all along is served in both directions. Non-trivial: the fault is strictly inside the script and the "
    "victim had set a BLOB policy. Distinct = (script, connections, victim, fault, position)."
)
ASSUMPTIONS = ["fake streams stand in for sockets/stdio: EOF = read returns empty, errors are raised by read()/write()"]

FAULTS = ["eof", "read-error", "eof-in-message", "junk-eof", "handler-exception", "write-error-then-read-error", "eof-of-two-at-once",
          "read-error-in-message", "handler-exception-with-more-behind", "write-error-two-updates-then-read-error",
          "handler-exception-StopIteration", "handler-exception-KeyError"]


class Exploding:
    """A registered device that raises while handling one trigger message."""

    def __init__(self):
        from indi.routing import Device

        self.calls = 0
        self.exc_class = RuntimeError
        outer = self

        class Dev(Device):
            def accepts(self, device):
                return device in (None, "BOOM")

            def message_from_client(self, message):
                if getattr(message, "device", None) == "BOOM":
                    outer.calls += 1
                    # the class of the failure is the driver author's accident: StopIteration (a bare next()), KeyError ...
                    raise outer.exc_class("device failure while handling a client message (injected)")

        self.device = Dev()


def run_script(case):
    """case: {"conns": [kinds], "script": [steps], "victim": i, "fault": kind, "at": k}"""
    from indi.device import values
    from indi.transport.server import tcp as server_tcp

    boom = Exploding()
    s = session.Session(extra_devices=[boom.device])
    try:
        peers = [s.connect(k) for k in case["conns"]]
        nconn = len(peers)
        victim_i = case["victim"] % nconn
        victim = peers[victim_i]
        policy = [{} for _ in peers]
        announced = [set() for _ in peers]
        script = case["script"]
        at = case["at"] % (len(script) + 1)
        drv = s.dep.drivers[0]
        counter = [0]

        def do(step):
            try:
                return do_(step)
            except Failure:
                raise
            except Exception as exc:  # noqa - nothing a connection does may surface in device or peer code
                raise Failure(
                    f"fault-escapes-into-{'device' if step['s'].startswith('dev') else 'another-connection'}:{type(exc).__name__}",
                    f"{case['conns']} victim={case['victim']} fault={case['fault']} at={case['at']}: step {step} raised {type(exc).__name__}: {exc}",
                )

        def do_(step):
            c = peers[step.get("c", 0) % nconn]
            t = step["s"]
            if t == "hs":
                c.send(session.GETPROPS)
            elif t == "blob":
                c.send(session.xml("enableBLOB", {"device": "DEV"}, text=step["v"]))
                policy[step["c"] % nconn]["DEV"] = step["v"]
            elif t == "write":
                c.send(session.xml("newTextVector", {"device": "DEV", "name": "TXT"}, [{"kind": "oneText", "attrs": {"name": "A"}, "text": step.get("val", "w")}]))
            elif t == "announce":
                # a peer that is itself a server or a firmware: it announces a device of its own to this server
                name = f"R{step.get('k', 0) % 3}"
                c.send(session.xml("defTextVector", {"device": name, "name": "T", "state": "Ok", "perm": "rw"}, [{"kind": "defText", "attrs": {"name": "a"}, "text": "v"}]))
                announced[step.get("c", 0) % nconn].add(name)
            elif t == "write-remote":
                c.send(session.xml("newTextVector", {"device": f"R{step.get('k', 0) % 3}", "name": "T"}, [{"kind": "oneText", "attrs": {"name": "a"}, "text": "w"}]))
            elif t == "devtext":
                counter[0] += 1
                val = f"{step.get('val', 'd')}-{counter[0]}"
                s.in_loop(lambda: setattr(drv.g.t.b, "value", val))
                return val
            elif t == "devblob":
                s.in_loop(lambda: setattr(drv.g.bl.a, "value", values.BLOB(bytes(range(step.get("n", 5) % 40)), ".bin")))
            else:
                raise AssertionError(step)

        for step in script[:at]:
            if step.get("c", 0) % nconn == victim_i or "c" not in step or True:
                do(step)
        # ---- the fault -------------------------------------------------------------------
        fault = case["fault"]
        if fault == "eof":
            victim.eof()
        elif fault == "read-error":
            victim.read_error()
        elif fault == "eof-in-message":
            victim.send_raw('<newTextVector device="DEV" name="TXT"><oneText name="A">par')
            s.settle()
            victim.eof()
        elif fault == "junk-eof":
            victim.send_raw("\x00\x01 garbage <<< &&& </x> <getProperties")
            s.settle()
            victim.eof()
        elif fault == "read-error-in-message":
            # reset in the middle of a message: the receive buffer is not empty when the connection ends
            victim.send_raw('<newTextVector device="DEV" name="TXT"><oneText name="A">par')
            s.settle()
            victim.read_error()
        elif fault == "handler-exception-with-more-behind":
            # the failing message has more traffic behind it in the same read
            victim.send('<newTextVector device="BOOM" name="X"><oneText name="A">x</oneText></newTextVector>'
                        '<newTextVector device="DEV" name="TXT"><oneText name="B">behind</oneText></newTextVector><getProp')
        elif fault in ("handler-exception-StopIteration", "handler-exception-KeyError"):
            boom.exc_class = StopIteration if fault.endswith("StopIteration") else KeyError
            victim.send('<newTextVector device="BOOM" name="X"><oneText name="A">x</oneText></newTextVector>')
        elif fault == "handler-exception":
            victim.send('<newTextVector device="BOOM" name="X"><oneText name="A">x</oneText></newTextVector>')
        elif fault == "write-error-then-read-error":
            victim.write_error()
            do({"s": "devtext", "val": "lost"})
            victim.read_error()
        elif fault == "write-error-two-updates-then-read-error":
            # the peer's write side is dead for a while before its read side notices: every device update routed in
            # between must still reach all the other connections
            victim.write_error()
            for p in peers:
                p.new_output()
            sent_vals = [do({"s": "devtext", "val": "during"}), do({"s": "devtext", "val": "during"})]
            s.settle()
            for i, p in enumerate(peers):
                if p is victim:
                    continue
                pol = policy[i].get("DEV", "Never")
                if pol in ("Never", "Also"):
                    els = p.elements(p.new_output())
                    got = [v for v in sent_vals if any(e.tag == "setTextVector" and any(c.text == v for c in e) for e in els)]
                    if got != sent_vals:
                        raise Failure(
                            f"bystander-missed-update-while-peer-write-fails:{p.kind}",
                            f"{case['conns']} victim={victim_i} at={at}: bystander {i} ({p.kind}, policy {pol}) received {got} of {sent_vals}",
                        )
            victim.read_error()
        second_victim = None
        if fault == "eof-of-two-at-once" and nconn >= 3:
            # two connections end in the same loop iteration
            second_victim = peers[(victim_i + 1) % nconn]
            victim.eof()
            second_victim.eof()
        elif fault == "eof-of-two-at-once":
            victim.eof()
        s.settle()
        if fault.startswith("handler-exception") and boom.calls == 0:
            raise Failure("harness:trigger-not-delivered", "the exploding device was never called")
        # ---- the victim is gone -----------------------------------------------------------
        h = victim.handler
        router = s.net.router
        where = f"{case['conns']} victim={victim_i}({victim.kind}) fault={fault} at={at}/{len(script)}"
        if not victim.task.done():
            raise Failure(f"victim-handler-still-running:{victim.kind}:{fault}", where)
        if h in router.clients:
            raise Failure(f"victim-still-registered:{victim.kind}:{fault}", where)
        if h in router.blob_routing:
            raise Failure(f"victim-policy-kept:{victim.kind}:{fault}", f"{where}: {router.blob_routing[h]}")
        if victim.kind == "tcp":
            if not victim.writer_closed:
                raise Failure(f"victim-writer-open:{fault}", where)
            if h in server_tcp.ConnectionHandler.connections:
                raise Failure(f"victim-in-connections-list:{fault}", where)
        if second_victim is not None:
            if not second_victim.task.done() or second_victim.handler in router.clients or second_victim.handler in router.blob_routing:
                raise Failure(f"second-victim-not-cleaned:{second_victim.kind}", where)
        spy = {"n": 0}
        orig = h.message_from_device

        def spying(message):
            spy["n"] += 1
            return orig(message)

        h.message_from_device = spying
        # ---- the others are served, a newcomer starts from defaults -------------------------
        newcomer = s.connect(victim.kind if victim.kind == "tcp" else "tcp")
        for p in peers + [newcomer]:
            p.new_output()
        # the newcomer is served from scratch: its handshake is answered
        newcomer.send(session.GETPROPS)
        if not any(e.tag == "defTextVector" and e.get("name") == "TXT" for e in newcomer.elements(newcomer.new_output())):
            raise Failure(f"newcomer-handshake-not-answered:{fault}", f"{where}: a connection opened after the fault got no definitions for its getProperties")
        for step in script[at:]:
            if step.get("c", 0) % nconn == victim_i and step["s"] in ("hs", "blob", "write", "announce", "write-remote"):
                continue
            if second_victim is not None and peers[step.get("c", 0) % nconn] is second_victim and step["s"] in ("hs", "blob", "write", "announce", "write-remote"):
                continue
            do(step)
        s.settle()
        for p in peers + [newcomer]:
            p.new_output()  # only the traffic that follows is judged against the policies as they are now
        post = do({"s": "devtext", "val": "post"})
        do({"s": "devblob", "n": 7})
        # somebody writes to every device the ended connection had announced
        for name in sorted(announced[victim_i]):
            newcomer.send(session.xml("newTextVector", {"device": name, "name": "T"}, [{"kind": "oneText", "attrs": {"name": "a"}, "text": "late"}]))
        s.settle()
        if spy["n"]:
            raise Failure(f"delivery-attempted-to-closed-connection:{victim.kind}:{fault}", f"{where}: {spy['n']} deliveries")
        for i, p in enumerate(peers + [newcomer]):
            if p is victim or p is second_victim:
                continue
            who = "newcomer" if p is newcomer else f"bystander {i} ({p.kind})"
            if not p.registered or p.task.done() or (p.kind == "tcp" and p.writer_closed):
                raise Failure(f"bystander-disturbed:{p.kind}:{fault}", f"{where}: {who} registered={p.registered} task_done={p.task.done()}")
            pol = (policy[i] if i < nconn else {}).get("DEV", "Never")
            els = p.elements(p.new_output())
            got_text = any(e.tag == "setTextVector" and any(c.text == post for c in e) for e in els)
            got_blob = any(e.tag == "setBLOBVector" for e in els)
            want_text = pol in ("Never", "Also")
            want_blob = pol in ("Also", "Only")
            if got_text != want_text or got_blob != want_blob:
                raise Failure(
                    f"{'newcomer' if p is newcomer else 'bystander'}-traffic:{'text' if got_text != want_text else 'blob'}:{pol}:{fault}",
                    f"{where}: {who} with policy {pol}: text update received={got_text} (expected {want_text}), BLOB received={got_blob} (expected {want_blob})",
                )
        # finally everybody leaves in an orderly way: every later disconnect is handled as cleanly as the first
        for p in peers + [newcomer]:
            if p is victim or p is second_victim:
                continue
            p.eof()
        s.settle()
        for i, p in enumerate(peers + [newcomer]):
            if not p.task.done() or p.handler in router.clients or p.handler in router.blob_routing:
                raise Failure(f"later-disconnect-not-cleaned:{p.kind}:{fault}", f"{where}: connection {i} still registered / running after its own orderly EOF")
        if server_tcp.ConnectionHandler.connections:
            raise Failure(f"connections-list-not-empty:{fault}", f"{where}: {len(server_tcp.ConnectionHandler.connections)} entries left")
        if router.clients or router.blob_routing:
            raise Failure(f"router-not-empty-at-the-end:{fault}", f"{where}: clients={len(router.clients)} policies={len(router.blob_routing)}")
        for ctx_ in s.unhandled():
            exc = ctx_.get("exception")
            if exc is not None and not fault.startswith("write-error"):  # (the injected write error ends that peer's own send task)
                raise Failure(f"task-exception:{type(exc).__name__}:{fault}", f"{where}: {exc!r}")
        inside = 0 < at < len(script)
        had_policy = bool(policy[victim_i])
        return inside and had_policy
    finally:
        s.close()


SOAK_FAULTS = ["eof", "read-error", "handler-exception", "read-error-in-message", "junk-eof", "write-error-then-read-error"]


def check_soak(case):
    """A long-lived server: connections keep coming and ending (every time by the same kind of fault, or rotating through
    the kinds) on ONE router; after each ending the router is clean and the connection that has been there all along is
    served - nothing may wear out. case: {"fault": kind | "rotate", "n": cycles, "kind": "tcp"|"tty"|"mixed"}"""
    from indi.device import values  # noqa: F401

    boom = Exploding()
    s = session.Session(extra_devices=[boom.device])
    try:
        router = s.net.router
        drv = s.dep.drivers[0]
        stayer = s.connect("tcp")
        stayer.send(session.GETPROPS)
        stayer.send(session.xml("enableBLOB", {"device": "DEV"}, text="Also"))
        n = case["n"]
        for k in range(n):
            fault = SOAK_FAULTS[k % len(SOAK_FAULTS)] if case["fault"] == "rotate" else case["fault"]
            kind = case["kind"] if case["kind"] != "mixed" else ("tcp", "tcp", "tty")[k % 3]
            where = f"cycle {k}/{n} fault={fault} kind={kind}"
            v = s.connect(kind)
            try:
                v.send(session.GETPROPS)
                v.send(session.xml("enableBLOB", {"device": "DEV"}, text="Also"))
                if fault == "eof":
                    v.eof()
                elif fault == "read-error":
                    v.read_error()
                elif fault == "handler-exception":
                    v.send('<newTextVector device="BOOM" name="X"><oneText name="A">x</oneText></newTextVector>')
                elif fault == "read-error-in-message":
                    v.send_raw('<newTextVector device="DEV" name="TXT"><oneText name="A">par')
                    s.settle()
                    v.read_error()
                elif fault == "junk-eof":
                    v.send_raw("\x00\x01 garbage <<< &&& </x> <getProperties")
                    s.settle()
                    v.eof()
                else:
                    v.write_error()
                    s.in_loop(lambda: setattr(drv.g.t.b, "value", f"lost-{k}"))
                    v.read_error()
                s.settle()
            except Failure:
                raise
            except Exception as exc:  # noqa
                raise Failure(f"soak:fault-escapes:{type(exc).__name__}", f"{where}: {exc}")
            if not v.task.done() or v.handler in router.clients or v.handler in router.blob_routing:
                raise Failure(f"soak:victim-not-cleaned:{fault}", f"{where}: task_done={v.task.done()} registered={v.handler in router.clients}")
            # the connection that has been there all along is still served, in both directions
            stayer.new_output()
            val = f"soak-{k}"
            s.in_loop(lambda: setattr(drv.g.t.b, "value", val))
            if not any(e.tag == "setTextVector" and any(c.text == val for c in e) for e in stayer.elements(stayer.new_output())):
                raise Failure(f"soak:stayer-not-served:{fault}", f"{where}: the device update after this cycle did not reach the long-lived connection")
            stayer.send(session.xml("newTextVector", {"device": "DEV", "name": "TXT"}, [{"kind": "oneText", "attrs": {"name": "A"}, "text": f"w{k}"}]))
            if drv.g.t.a._value != f"w{k}":
                raise Failure(f"soak:stayer-write-lost:{fault}", f"{where}: a write of the long-lived connection did not reach the driver (TXT.A={drv.g.t.a._value!r})")
        newcomer = s.connect("tcp")
        newcomer.send(session.GETPROPS)
        if not any(e.tag == "defTextVector" and e.get("name") == "TXT" for e in newcomer.elements(newcomer.new_output())):
            raise Failure("soak:newcomer-handshake-not-answered", f"after {n} cycles ({case['fault']})")
        if len(router.clients) != 2:
            raise Failure("soak:router-clients-leaked", f"after {n} cycles: {len(router.clients)} clients registered, 2 connections are open")
        for ctx_ in s.unhandled():
            exc = ctx_.get("exception")
            if exc is not None and not isinstance(exc, (BrokenPipeError, ConnectionResetError)):
                raise Failure(f"soak:task-exception:{type(exc).__name__}", f"{exc!r}")
        return Info(n_eval=n, n_nontrivial=n, label_counts={f"soak-{case['fault']}": n})
    finally:
        s.close()


def check_case(case):
    nt = run_script(case)
    return Info(nontrivial=nt, labels=[case["fault"], "victim-" + case["conns"][case["victim"] % len(case["conns"])], f"conns={len(case['conns'])}"])


def check_block(case):
    """All fault kinds x all positions x all victims for one (conns, script)."""
    n = nt = 0
    script, conns = case["script"], case["conns"]
    counts = {}
    for victim in range(len(conns)):
        for fault in FAULTS:
            for at in range(len(script) + 1):
                sub = {"conns": conns, "script": script, "victim": victim, "fault": fault, "at": at}
                try:
                    r = run_script(sub)
                except Failure as f:
                    f.min_case = sub
                    f.min_sub = "single"
                    raise
                n += 1
                nt += bool(r)
                counts[fault] = counts.get(fault, 0) + 1
    return Info(n_eval=n, n_nontrivial=nt, label_counts={**counts, "victim-tty": sum(1 for c in conns if c == "tty") * len(FAULTS) * (len(script) + 1)})


SCRIPTS = [
    [{"s": "hs", "c": 0}, {"s": "hs", "c": 1}, {"s": "blob", "c": 0, "v": "Also"}, {"s": "devtext"}, {"s": "devblob", "n": 9}, {"s": "write", "c": 1, "val": "w1"}],
    [{"s": "blob", "c": 0, "v": "Only"}, {"s": "blob", "c": 1, "v": "Also"}, {"s": "hs", "c": 0}, {"s": "devblob", "n": 3}, {"s": "write", "c": 0, "val": "w2"}, {"s": "devtext"}],
    [{"s": "hs", "c": 2}, {"s": "blob", "c": 2, "v": "Also"}, {"s": "blob", "c": 1, "v": "Never"}, {"s": "devtext"}, {"s": "blob", "c": 0, "v": "Only"}, {"s": "devblob", "n": 20}, {"s": "write", "c": 2, "val": "w3"}],
]
SCRIPTS.append([{"s": "hs", "c": 0}, {"s": "announce", "c": 0, "k": 0}, {"s": "announce", "c": 1, "k": 2}, {"s": "announce", "c": 0, "k": 1}, {"s": "blob", "c": 0, "v": "Also"}, {"s": "write-remote", "c": 1, "k": 0}, {"s": "devtext"}])
CONNS = [["tcp", "tcp"], ["tty", "tcp"], ["tcp", "tcp", "tcp"], ["tcp", "tty", "tcp"]]

step_st = st.one_of(
    st.fixed_dictionaries({"s": st.just("hs"), "c": st.integers(0, 2)}),
    st.fixed_dictionaries({"s": st.just("blob"), "c": st.integers(0, 2), "v": st.sampled_from(["Never", "Also", "Only"])}),
    st.fixed_dictionaries({"s": st.just("write"), "c": st.integers(0, 2), "val": st.sampled_from(["x", "y z", "<&>"])}),
    st.fixed_dictionaries({"s": st.just("devtext"), "val": st.sampled_from(["d", "e"])}),
    st.fixed_dictionaries({"s": st.just("announce"), "c": st.integers(0, 2), "k": st.integers(0, 2)}),
    st.fixed_dictionaries({"s": st.just("write-remote"), "c": st.integers(0, 2), "k": st.integers(0, 2)}),
    st.fixed_dictionaries({"s": st.just("devblob"), "n": st.integers(0, 39)}),
)
case_st = st.fixed_dictionaries(
    {
        "conns": st.sampled_from(CONNS + [["tcp", "tcp", "tty"]]),
        "script": st.lists(step_st, min_size=1, max_size=10),
        "victim": st.integers(0, 2),
        "fault": st.sampled_from(FAULTS),
        "at": st.integers(0, 10),
    }
)

SUBCHECKS = {"catalogue": check_block, "single": check_case, "scripts": check_case, "soak": check_soak}


def blocks(tier):
    for script in SCRIPTS:
        for conns in CONNS:
            yield {"conns": conns, "script": script}


def run(ctx):
    cnt = ctx.each("catalogue", blocks(ctx.tier), check_block, stop_after=4, timeout=150)
    ctx.exhaustive["catalogue"] = {"complete": True, "n_blocks": cnt, "bound": f"{len(SCRIPTS)} scripts x 4 connection sets x every victim x 6 fault kinds x every step index"}
    ctx.hyp("scripts", case_st, check_case, ctx.scale(300, 3000))
    n_soak = ctx.scale(60, 400)
    soaks = [{"fault": f, "n": n_soak, "kind": k} for f, k in [("rotate", "mixed"), ("handler-exception", "tcp"), ("read-error-in-message", "tcp"), ("eof", "tty"), ("write-error-then-read-error", "tcp")]]
    ctx.each("soak", soaks, check_soak, stop_after=2, timeout=ctx.scale(150, 600))
