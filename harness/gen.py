"""The INDI message grammar as data (`msg_spec`), Hypothesis strategies for it, two renderers
(canonical = through the library's constructors and to_string; foreign = hand-written
serializer driven by a list of choice integers) and the structural `view` oracle.

Vocabularies and required attributes are hard-coded here from the INDI white paper / DTD; nothing
is imported from indi.message.const.

A msg_spec is plain JSON data:
    {"kind": "defTextVector", "attrs": {"device": "d", ...}, "text": None | str,
     "children": [{"kind": "defText", "attrs": {...}, "text": ...}, ...]}
"""
from __future__ import annotations

import re

from hypothesis import strategies as st

STATES = ["Idle", "Ok", "Busy", "Alert"]
PERMS = ["ro", "wo", "rw"]
RULES = ["OneOfMany", "AtMostOne", "AnyOfMany"]
SWITCH = ["On", "Off"]
BLOBENABLE = ["Never", "Also", "Only"]
VKINDS = ["Text", "Number", "Switch", "Light", "BLOB"]

# kind -> (required attrs, optional attrs, text rule, child kind)
# text rule: None = no text; "blobenable" / "free1" (required, non-empty free text)
MESSAGES = {
    "getProperties": (["version"], ["device", "name"], None, None),
    "enableBLOB": (["device"], ["name"], "blobenable", None),
    "delProperty": (["device"], ["name", "timestamp", "message"], None, None),
    "message": ([], ["device", "timestamp", "message"], None, None),
    "pingRequest": (["uid"], [], None, None),
    "pingReply": (["uid"], [], None, None),
    # registered by the library as a stand-alone message (same tag as the setLightVector part)
    "oneLight": (["name"], [], "state", None),
}
for _k in VKINDS:
    req = ["device", "name", "state"] + ([] if _k == "Light" else ["perm"]) + (["rule"] if _k == "Switch" else [])
    opt = ["label", "group", "timestamp", "message"] + ([] if _k == "Light" else ["timeout"])
    MESSAGES[f"def{_k}Vector"] = (req, opt, None, f"def{_k}")
    MESSAGES[f"set{_k}Vector"] = (["device", "name", "state"], ["timeout", "timestamp", "message"], None, f"one{_k}")
    if _k != "Light":
        MESSAGES[f"new{_k}Vector"] = (["device", "name"], ["timestamp"], None, f"one{_k}")

# part kind -> (required attrs, optional attrs, text rule)
# text rules: free / number / switch / state / base64 ; all optional except vocabulary ones
PARTS = {
    "defText": (["name"], ["label"], "free"),
    "defNumber": (["name", "format", "min", "max", "step"], ["label"], "number"),
    "defSwitch": (["name"], ["label"], "switch"),
    "defLight": (["name"], ["label"], "state"),
    "defBLOB": (["name"], ["label"], "free"),
    "oneText": (["name"], [], "free"),
    "oneNumber": (["name"], [], "number"),
    "oneSwitch": (["name"], [], "switch"),
    "oneLight": (["name"], [], "state"),
    "oneBLOB": (["name", "size", "format"], [], "base64"),
}

FROM_CLIENT = ["getProperties", "enableBLOB", "pingReply"] + [f"new{k}Vector" for k in VKINDS if k != "Light"]
FROM_DEVICE = (
    ["getProperties", "delProperty", "message", "pingRequest"]
    + [f"def{k}Vector" for k in VKINDS]
    + [f"set{k}Vector" for k in VKINDS]
)

VOCAB_ATTRS = {"state": STATES, "perm": PERMS, "rule": RULES}


# --------------------------------------------------------------------------------------------
# text alphabets

# XML 1.0 Char minus CR, minus the non-characters U+FFFE/FFFF (C0 controls other than TAB and
# LF cannot be carried by XML at all)
def _xml_chars(max_cp=0x10FFFF):
    return st.characters(
        min_codepoint=0x20,
        max_codepoint=max_cp,
        exclude_categories=("Cs",),
        exclude_characters="￾￿",
    ) | st.sampled_from("\t\n")


_SPICY = ["<", ">", "&", '"', "'", "]]>", "&amp;", "&#10;", "<!--", "-->", "<?", "?>", "=", "/", " ", "\n", "\t", "é", "ÿ", "€", "\U0001F315", " ", "x", "0", "-"]


_TAGWORDS = ["message", "getProperties", "oneLight", "setTextVector", "defText", "newSwitchVector", "/message", "xml", "CDATA"]


def xml_text(max_size=12, max_cp=0x10FFFF):
    """Free text XML can carry, biased towards markup characters and words that look like protocol tags."""
    piece = st.one_of(
        st.sampled_from(_SPICY),
        st.sampled_from(_SPICY + _TAGWORDS),
        st.text(_xml_chars(max_cp), min_size=1, max_size=4),
        st.text("abcXYZ019_ ", min_size=1, max_size=6),
    )
    return st.lists(piece, min_size=0, max_size=max_size).map("".join)


def stripped_text(max_size=10, max_cp=0x10FFFF, allow_empty=False):
    """Text in normal form: no surrounding whitespace (str.strip sense); non-empty unless allowed."""
    s = xml_text(max_size, max_cp).map(lambda t: t.strip())
    if allow_empty:
        return s
    return s.map(lambda t: t if t else "v")


def attr_text(max_cp=0x10FFFF):
    """Attribute values: any XML text incl. leading/trailing blanks, TAB and LF."""
    return st.one_of(st.sampled_from(["d", "A", "B", "name", "", " x ", "a b", "a\nb", "q\"uote'", "<&>"]), xml_text(6, max_cp))


def number_text():
    """Strings of the INDI number grammar (sign? integer | decimal | sexagesimal)."""
    digits = st.text("0123456789", min_size=1, max_size=4)
    frac = st.text("0123456789", min_size=1, max_size=3)
    sign = st.sampled_from(["", "", "-"])
    two = st.integers(0, 59).map(lambda v: f"{v:02d}")
    plain = st.one_of(
        st.builds(lambda s, d: s + d, sign, digits),
        st.builds(lambda s, d, f: f"{s}{d}.{f}", sign, digits, frac),
    )
    sexa = st.one_of(
        st.builds(lambda s, d, m: f"{s}{d}:{m}", sign, digits, two),
        st.builds(lambda s, d, m, f: f"{s}{d}:{m}.{f}", sign, digits, two, frac),
        st.builds(lambda s, d, m, x: f"{s}{d}:{m}:{x}", sign, digits, two, two),
        st.builds(lambda s, d, m, x, f: f"{s}{d}:{m}:{x}.{f}", sign, digits, two, two, frac),
    )
    return st.one_of(plain, sexa, st.sampled_from(["0", "0.0", "-0.0", "00", "1", "-1"]))


def base64_text():
    import base64

    return st.binary(min_size=0, max_size=12).map(lambda b: base64.b64encode(b).decode())


def part_text(rule):
    if rule == "free":
        return st.none() | stripped_text(allow_empty=False)
    if rule == "number":
        return st.none() | number_text()
    if rule == "switch":
        return st.sampled_from(SWITCH)
    if rule == "state":
        return st.sampled_from(STATES)
    if rule == "base64":
        return st.none() | base64_text().map(lambda t: t or None)
    raise AssertionError(rule)


def attr_value(name, max_cp=0x10FFFF):
    if name in VOCAB_ATTRS:
        return st.sampled_from(VOCAB_ATTRS[name])
    if name in ("min", "max", "step", "timeout", "size"):
        return st.sampled_from(["0", "0", "0.0", "1", "10.5", "-3", "100", "1e3"])
    if name == "format":
        return st.sampled_from(["%f", "%.2f", "%d", "%8.3m", "%10.6m", "%5.1f", ".fits", ""])
    if name == "version":
        return st.sampled_from(["1.7", "1.0", "2"])
    if name == "timestamp":
        return st.sampled_from(["2020-01-01T00:00:00", "2026-10-02T12:34:56.789", "t"])
    return attr_text(max_cp)


@st.composite
def part_spec(draw, kind, max_cp=0x10FFFF):
    req, opt, rule = PARTS[kind]
    attrs = {a: draw(attr_value(a, max_cp)) for a in req}
    for a in opt:
        if draw(st.booleans()):
            attrs[a] = draw(attr_value(a, max_cp))
    return {"kind": kind, "attrs": attrs, "text": draw(part_text(rule))}


@st.composite
def msg_spec(draw, kinds=None, max_children=4, max_cp=0x10FFFF):
    kind = draw(st.sampled_from(kinds or sorted(MESSAGES)))
    req, opt, trule, child = MESSAGES[kind]
    attrs = {a: draw(attr_value(a, max_cp)) for a in req}
    for a in opt:
        if draw(st.booleans()):
            attrs[a] = draw(attr_value(a, max_cp))
    text = None
    if trule == "blobenable":
        text = draw(st.sampled_from(BLOBENABLE))
    if trule == "state":
        text = draw(st.sampled_from(STATES))
    children = []
    if child:
        children = draw(st.lists(part_spec(child, max_cp), min_size=0, max_size=max_children))
    return {"kind": kind, "attrs": attrs, "text": text, "children": children}


# --------------------------------------------------------------------------------------------
# expected structural view (from the spec) and observed view (from a library object)


def norm_text(t):
    if t is None:
        return None
    t = str(t).strip()
    return t if t else None


def expected_view(spec):
    return (
        spec["kind"],
        tuple(sorted((k, str(v)) for k, v in spec["attrs"].items() if v is not None)),
        norm_text(spec.get("text")),
        tuple(expected_view(c) for c in spec.get("children", [])),
    )


def view(obj):
    """Structural view of a library message / message part, read from its public attributes."""
    attrs = tuple(
        sorted((k, str(v)) for k, v in vars(obj).items() if v is not None and k not in ("children", "value") and not k.startswith("_"))
    )
    children = getattr(obj, "children", None) or ()
    return (
        obj.__class__.tag_name(),
        attrs,
        norm_text(getattr(obj, "value", None)),
        tuple(view(c) for c in children),
    )


# --------------------------------------------------------------------------------------------
# canonical renderer: through the library


def _classes():
    from indi.message import IndiMessage, Message
    from indi.message.base import IndiMessagePart

    msgs = {c.tag_name(): c for c in IndiMessage.all_message_classes()}
    msgs.setdefault("message", Message)  # emitted by the library even where it is not registered
    parts = {c.tag_name(): c for c in IndiMessagePart._all_subclasses()}
    return msgs, parts


_NUMERIC_ATTRS = ("min", "max", "step", "size", "timeout")


def pythonic(text):
    """The Python number whose str() is exactly `text`, if there is one (callers of the library pass numbers,
    not only strings: the client hands the user's raw value to OneNumber), else the text itself."""
    if isinstance(text, str):
        try:
            if re.fullmatch(r"-?\d+", text) and str(int(text)) == text:
                return int(text)
            if re.fullmatch(r"-?\d+\.\d+", text) and str(float(text)) == text:
                return float(text)
        except ValueError:
            pass
    return text


def build(spec, numeric=False):
    """Build the library object for a spec through the public constructors. With numeric=True, number texts and
    numeric attributes are passed as Python ints / floats wherever that is the same value textually."""
    msgs, parts = _classes()
    if spec["kind"] in PARTS and "children" not in spec:
        cls = parts[spec["kind"]]
        attrs = dict(spec["attrs"])
        value = spec.get("text")
        if numeric:
            for a in _NUMERIC_ATTRS:
                if a in attrs:
                    attrs[a] = pythonic(attrs[a])
            if PARTS[spec["kind"]][2] == "number":
                value = pythonic(value)
        return cls(value=value, **attrs)
    cls = msgs[spec["kind"]]
    kwargs = dict(spec["attrs"])
    if numeric:
        for a in _NUMERIC_ATTRS:
            if a in kwargs:
                kwargs[a] = pythonic(kwargs[a])
    if spec.get("text") is not None:
        kwargs["value"] = spec["text"]
    if MESSAGES.get(spec["kind"], (0, 0, 0, None))[3] is not None:
        kwargs["children"] = tuple(build(c, numeric) for c in spec.get("children", []))
    return cls(**kwargs)


# --------------------------------------------------------------------------------------------
# foreign renderer: hand-written serializer, every spelling decision taken from `choices`


class Chooser:
    """Feeds decisions from a list of ints, cyclically; empty list = all zeros."""

    def __init__(self, choices):
        self.c = list(choices) or [0]
        self.i = 0

    def next(self, n):
        v = self.c[self.i % len(self.c)]
        self.i += 1
        return v % n if n else 0


def _esc(s, quote, ch: Chooser, charrefs=True, ascii_only=True):
    out = []
    for c in s:
        o = ord(c)
        if c == "&":
            out.append("&amp;")
        elif c == "<":
            out.append("&lt;")
        elif c == ">":
            # '>' may travel raw in attribute values and in text (except right after ']]')
            if ch.next(3) == 2 and not (len(out) >= 2 and out[-1] == "]" and out[-2] == "]"):
                out.append(">")
            else:
                out.append("&gt;")
        elif quote and c == quote:
            out.append("&quot;" if c == '"' else "&apos;")
        elif quote and c in "\n\t":
            out.append("&#10;" if c == "\n" else "&#9;")
        elif o > 0x7E and (ascii_only or o > 0xFF):
            out.append(f"&#x{o:X};" if ch.next(2) else f"&#{o};")
        elif charrefs and c.isalnum() and ch.next(9) == 1:
            out.append(f"&#{o};")
        else:
            out.append(c)
    return "".join(out)


def _attrs(attrs, ch: Chooser, ascii_only):
    items = [(k, str(v)) for k, v in attrs.items() if v is not None]
    # permutation by repeated selection
    order = []
    pool = list(items)
    while pool:
        order.append(pool.pop(ch.next(len(pool))))
    out = []
    for k, v in order:
        q = '"' if ch.next(2) == 0 else "'"
        # any XML white space may separate the tag name / attributes: blank, line feed, CR LF, tab
        sep = {3: "\n  ", 7: "\r\n  ", 5: "\t", 11: "\r"}.get(ch.next(12), " ")
        out.append(f"{sep}{k}={q}{_esc(v, q, ch, ascii_only=ascii_only)}{q}")
    return "".join(out)


def _element(kind, attrs, text, children, ch: Chooser, indent, ascii_only, cdata=None):
    head = f"<{kind}{_attrs(attrs, ch, ascii_only)}"
    if not children and not text:
        style = ch.next(3)
        return head + ("/>" if style == 0 else " />" if style == 1 else f"></{kind}>")
    body = ""
    if text:
        pad_l = ["", " ", "\n  ", "\t"][ch.next(4)]
        pad_r = ["", " ", "\n", "  "][ch.next(4)]
        # some XML writers wrap every text value in a CDATA section, in which markup characters travel raw
        cdata_ok = "]]>" not in text and all((0x20 <= ord(c) <= 0x7E) or (not ascii_only and 0xA0 <= ord(c) <= 0xFF) for c in text)
        if cdata_ok and (cdata == "force" or ch.next(7) == 6):
            body = pad_l + "<![CDATA[" + text + "]]>" + pad_r
        else:
            body = pad_l + _esc(text, None, ch, ascii_only=ascii_only) + pad_r
    if children:
        ws = ["", "\n", "\n  ", " "][indent]
        body += "".join(ws + _element(c["kind"], c["attrs"], c.get("text"), [], ch, indent, ascii_only, cdata) for c in children)
        body += ["", "\n", "\n", " "][indent]
    return f"{head}>{body}</{kind}>"


def render_foreign(spec, choices, ascii_only=True) -> str:
    """An XML spelling of `spec` that is equivalent under XML + the stated normalisation."""
    ch = Chooser(choices)
    decl = ["", '<?xml version="1.0"?>\n', "<?xml version='1.0' encoding='UTF-8'?>", '<?xml version="1.0"?>'][ch.next(4)]
    indent = ch.next(4)
    body = _element(spec["kind"], spec["attrs"], spec.get("text"), spec.get("children", []), ch, indent, ascii_only, spec.get("cdata"))
    # XML allows white space before the '>' of an end tag (drawn LAST, so that earlier choices keep their meaning)
    if body.endswith(f"</{spec['kind']}>"):
        body = body[:-1] + ["", "", "", " ", "\n", "\t"][ch.next(6)] + ">"
    return decl + body


def render_plain(spec) -> str:
    """Compact ASCII spelling with no declaration (all choices zero)."""
    return render_foreign(spec, [0])


choices = st.lists(st.integers(0, 35), min_size=0, max_size=24)


# --------------------------------------------------------------------------------------------
# independent framing oracle

_DECL = re.compile(r"<\?xml[^>]*\?>")


def split_elements(text: str):
    """Top-level elements of a stream, as ElementTree elements (independent of indi's Buffer)."""
    import xml.etree.ElementTree as ET

    p = ET.XMLPullParser(events=("start", "end"))
    p.feed("<r>")
    p.feed(_DECL.sub("", text))
    depth = 0
    out = []
    for ev, el in p.read_events():
        if ev == "start":
            depth += 1
        else:
            depth -= 1
            if depth == 1:
                out.append(el)
    return out


def et_view(el):
    """Structural view of an ElementTree element, same shape as `view`."""
    return (
        el.tag,
        tuple(sorted(el.attrib.items())),
        norm_text(el.text),
        tuple(et_view(c) for c in el),
    )
