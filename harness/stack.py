"""Full stack in one process: generated drivers on a Router, real server connection handlers, fake
pipes with harness-owned fragmentation, and the library's network Client (control + BLOB
connection). Used by C01, C06, C08."""
from __future__ import annotations

from harness import drivers, gen, net, refnum
from harness.core import Failure, lib_exception_failure


class Stack:
    def __init__(self, specs, frags=None, connect_client=True, yield_drains=False, early=(), snoopers=()):
        """snoopers: [(driver index, device name, BLOB policy | None)] - drivers that follow another device through
        Driver.snoop_device() (registered with the router BEFORE any network client connects, as at server start-up) and,
        with a policy, enable BLOBs for it on their snooping client."""
        from indi.client.client import Client

        frags = frags or {}
        self.net = net.Net(yield_drains=yield_drains)
        self.loop = self.net.loop
        self.dep = drivers.Deployment(specs, self.net.router, early=early)
        self.client = None
        self.snoops = []
        for di, devname, policy in snoopers:
            def go(di=di, devname=devname, policy=policy):
                from indi import message as _m

                c = self.dep.drivers[di].snoop_device(devname)
                if policy is not None:
                    c.send_message(_m.EnableBLOB(device=devname, value=policy))
                return c

            self.snoops.append(self.in_loop(go, settle=False))
            self.loop.drain()
        if connect_client:
            self.control = net.FakeTCP(self.net, frags.get("c2s"), frags.get("s2c"))
            self.blob = net.FakeTCP(self.net, frags.get("b2s"), frags.get("s2b"))
            self.client = Client(self.control, self.blob)
            self.loop.run_until_complete(self.client.start())
            self.settle()

    def settle(self):
        self.net.settle()
        self.check_tasks()

    def in_loop(self, fn, settle=True):
        async def go():
            return fn()

        r = self.loop.run_until_complete(go())
        if settle:
            self.settle()
        return r

    def check_tasks(self):
        """A dead connection task or an exception in a send task is a failure of the stack."""
        for ctx in self.loop._unhandled:
            exc = ctx.get("exception")
            if exc is not None:
                f = lib_exception_failure(exc, "task-exception")
                raise Failure(f.sig, f.msg)
        for link in self.net.links:
            t = link.server_task
            if t is not None and t.done() and not link.b_reader.eof:
                raise Failure("server-connection-ended", "a server connection handler ended without EOF from the peer")

    def close(self):
        self.net.close()


# --------------------------------------------------------------------------------------------
# views


def expected_view(dep):
    """{dev: {vec: {...}}} of the currently enabled properties, from the specs + driver attributes."""
    out = {}
    for d, spec in enumerate(dep.specs):
        props = {}
        for g, v in dep.vectors[d]:
            if not dep.is_enabled(d, g, v):
                continue
            inst = dep.instance(d, g, v)
            els = {}
            for e in v["elements"]:
                if not e["enabled"]:
                    continue
                els[e["name"]] = {"label": e.get("label") or e["name"], "value": getattr(inst, e["attr"])._value, "spec": e}
            props[v["name"]] = {"kind": v["kind"], "state": inst.state_, "label": v.get("label") or v["name"], "group": g["name"], "elements": els}
        if props:
            out[spec["name"]] = props
    return out


def client_view(client):
    out = {}
    for dn in list(client.list_devices()):
        dev = client[dn]
        props = {}
        for vn in dev.list_vectors():
            v = dev[vn]
            kind = type(v).__name__[: -len("Vector")]
            els = {en: {"label": v[en].label, "value": v[en].value} for en in v.list_elements()}
            props[vn] = {"kind": kind, "state": v.state, "label": v.label, "group": v.group, "elements": els}
        if props:
            out[dn] = props
    return out


def compare_value(kind, espec, driver_value, client_value, where, blob_mode="equal"):
    """blob_mode: 'equal' | 'equal-or-absent' | 'skip'"""
    if kind == "Number":
        if driver_value is None:
            if gen.norm_text(client_value) is not None:
                raise Failure("mirror-value:Number", f"{where}: client holds {client_value!r}, driver None")
            return
        try:
            denoted = refnum.parse(str(client_value))
        except (ValueError, TypeError):
            raise Failure("mirror-value:Number-not-a-number", f"{where}: client holds {client_value!r}, driver {driver_value!r}")
        fmt = espec["format"]
        if not refnum.conforms(str(client_value), fmt):
            raise Failure("mirror-value:Number-not-in-format", f"{where}: client holds {client_value!r}, which is not how format {fmt!r} renders a number (driver {driver_value!r})")
        tol = refnum.resolution(fmt) * (1 + 1e-9) + abs(driver_value) * 1e-12
        if abs(denoted - driver_value) > tol:
            raise Failure("mirror-value:Number", f"{where}: client holds {client_value!r} (= {denoted}), driver {driver_value!r}, format {fmt}")
    elif kind == "BLOB":
        if blob_mode == "skip":
            return
        want = b"" if driver_value is None else driver_value.binary
        if client_value is None or isinstance(client_value, str) and not client_value.strip():
            got = b""
            absent = True
        elif hasattr(client_value, "binary"):
            got, absent = client_value.binary, False
        else:
            raise Failure("mirror-value:BLOB-not-a-blob", f"{where}: client holds {str(client_value)[:80]!r}")
        if blob_mode == "equal-or-absent" and absent:
            return
        if got != want:
            raise Failure("mirror-value:BLOB", f"{where}: client holds {len(got)} bytes, driver {len(want)} bytes")
        if not absent and driver_value is not None and len(want) and (client_value.format or "") != (driver_value.format or ""):
            raise Failure("mirror-value:BLOB-format", f"{where}: {client_value.format!r} vs {driver_value.format!r}")
    else:
        if gen.norm_text(client_value) != gen.norm_text(driver_value):
            raise Failure(f"mirror-value:{kind}", f"{where}: client holds {client_value!r}, driver {driver_value!r}")


def compare_views(dep, client, blob_mode=None, who="client", only=None, blob_state=True):
    """Set equality both ways + metadata + values. blob_mode: callable (dev, vec, el) -> mode, or None = 'equal'.
    only: restrict the comparison to one device name (a snooper is only answerable for the device it snoops)."""
    want = expected_view(dep)
    got = client_view(client)
    if only is not None:
        want = {k: v for k, v in want.items() if k == only}
        got = {k: v for k, v in got.items() if k == only}
    if sorted(got) != sorted(want):
        raise Failure(f"{who}-devices", f"{who} sees devices {sorted(got)}, expected {sorted(want)}")
    for dn in want:
        if sorted(got[dn]) != sorted(want[dn]):
            missing = sorted(set(want[dn]) - set(got[dn]))
            extra = sorted(set(got[dn]) - set(want[dn]))
            raise Failure(f"{who}-properties:{'missing' if missing else 'extra'}", f"{dn}: {who} sees {sorted(got[dn])}, expected {sorted(want[dn])}")
        for vn, w in want[dn].items():
            g = got[dn][vn]
            for f in ("kind", "state", "label", "group"):
                if f == "state" and w["kind"] == "BLOB" and not (blob_state(dn, vn) if callable(blob_state) else blob_state):
                    # a BLOB property's state travels in setBLOBVector, which this observer's policy excludes - or which
                    # raced with a definition on the other connection (blob_state callable says so)
                    continue
                if str(g[f]) != str(w[f]):
                    raise Failure(f"{who}-metadata:{f}", f"{dn}.{vn}: {f}={g[f]!r}, expected {w[f]!r}")
            if sorted(g["elements"]) != sorted(w["elements"]):
                raise Failure(f"{who}-elements", f"{dn}.{vn}: elements {sorted(g['elements'])}, expected {sorted(w['elements'])}")
            for en, we in w["elements"].items():
                ge = g["elements"][en]
                if str(ge["label"]) != str(we["label"]):
                    raise Failure(f"{who}-element-label", f"{dn}.{vn}.{en}: {ge['label']!r} vs {we['label']!r}")
                mode = blob_mode(dn, vn, en) if (blob_mode and w["kind"] == "BLOB") else "equal"
                compare_value(w["kind"], we["spec"], we["value"], ge["value"], f"{who} {dn}.{vn}.{en}", mode)
