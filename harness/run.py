"""CLI:  python -m harness.run <ID> [--tier quick|thorough] [--replay FILE] [--shards N]

exit 0  property held on everything explored (listed known findings are printed, not alarms)
exit 1  + 'VIOLATION property=<id> replay=<path>' for every unlisted violation
exit 2  harness error (never a violation)
"""
from __future__ import annotations

import argparse
import glob
import importlib
import json
import multiprocessing
import os
import sys
import time
import traceback

VERIF = os.path.dirname(os.path.dirname(os.path.abspath(__file__)))
REPO = os.path.abspath(os.environ.get("VERIF_REPO", "/repo"))
sys.path.insert(0, REPO)
deps = os.path.join(VERIF, ".deps")
if os.path.isdir(deps):
    sys.path.append(deps)

import logging  # noqa: E402

logging.disable(logging.CRITICAL)  # the library logs every rejected buffer prefix

from harness import core  # noqa: E402


def _check_import():
    import indi

    got = os.path.dirname(os.path.abspath(indi.__file__))
    want = os.path.join(REPO, "indi")
    if got != want:
        raise core.HarnessError(f"indi imported from {got}, expected {want}")


def load(pid: str):
    return importlib.import_module(f"harness.props.{pid.lower()}")


def _worker(args):
    pid, tier, seed, shard, nshards = args
    try:
        mod = load(pid)
        ctx = core.Ctx(pid, tier, seed, shard, nshards, mod.SUBCHECKS)
        mod.run(ctx)
        return ctx.result()
    except BaseException as e:  # noqa
        return {"harness_error": f"shard {shard}: {type(e).__name__}: {e}\n{traceback.format_exc()}"}


def replay_file(mod, path: str):
    """Re-execute one saved case, Hypothesis-free. Returns None if it passes, else Failure."""
    with open(path) as f:
        data = json.load(f)
    sub = data["subcheck"]
    fn = mod.SUBCHECKS[sub]
    ctx = core.Ctx(mod.ID, "quick", 0, 0, 1, mod.SUBCHECKS)
    ctx.open_findings = []  # a replay never suppresses anything
    try:
        ctx.execute(sub, fn, data["case"])
    except core.Failure as f:
        return f
    return None


def main(argv=None):
    ap = argparse.ArgumentParser()
    ap.add_argument("pid")
    ap.add_argument("--tier", default=os.environ.get("VERIF_TIER", "quick"), choices=["quick", "thorough"])
    ap.add_argument("--replay")
    ap.add_argument("--shards", type=int)
    ap.add_argument("--no-evidence", action="store_true")
    a = ap.parse_args(argv)
    pid = a.pid.upper()
    seed = int(os.environ.get("VERIF_SEED", "1") or "1")
    t0 = time.time()
    try:
        _check_import()
        mod = load(pid)
    except BaseException as e:  # noqa
        print(f"HARNESS-ERROR property={pid} {type(e).__name__}: {e}")
        traceback.print_exc()
        return 2

    if a.replay:
        try:
            f = replay_file(mod, a.replay)
        except core.HarnessError as e:
            print(f"HARNESS-ERROR property={pid} {e}")
            return 2
        if f is not None:
            print(f"replay fails: {f.full_sig}: {f.msg[:1500]}")
            print(f"VIOLATION property={pid} replay={a.replay}")
            return 1
        print(f"replay passes: {a.replay}")
        return 0

    # 1. regression tier: shrunk inputs of every defect a check has confirmed
    known = core.load_known(pid)
    violations = []
    known_lines = []
    reg_run = 0
    reg_by_path = {}
    for e in known:
        for rel in e.get("regressions", []):
            reg_by_path[os.path.join(VERIF, rel)] = e
    for path in sorted(glob.glob(os.path.join(VERIF, "regressions", pid, "*.json"))):
        reg_run += 1
        try:
            f = replay_file(mod, path)
        except core.HarnessError as e:
            print(f"HARNESS-ERROR property={pid} regression {path}: {e}")
            return 2
        entry = reg_by_path.get(path)
        if f is None:
            continue
        if entry is not None and entry.get("status") == "open" and core.finding_matches(entry, f.full_sig):
            entry["_reproduced"] = True
            continue
        violations.append({"sub": "regression", "sig": f.full_sig, "msg": f.msg, "replay": path})
    if violations:
        for v in violations:
            print(f"regression fails again: {v['sig']}: {v['msg'][:800]}")
            print(f"VIOLATION property={pid} replay={v['replay']}")
        write_evidence(mod, a.tier, seed, [], violations, time.time() - t0, reg_run, partial=True)
        return 1

    # 2. generated search
    nshards = a.shards or getattr(mod, "SHARDS", {}).get(a.tier, 1 if a.tier == "quick" else 16)
    jobs = [(pid, a.tier, seed, i, nshards) for i in range(nshards)]
    if nshards == 1:
        results = [_worker(jobs[0])]
    else:
        with multiprocessing.get_context("fork").Pool(min(nshards, os.cpu_count() or 1)) as pool:
            results = pool.map(_worker, jobs, chunksize=1)
    errs = [r["harness_error"] for r in results if "harness_error" in r]
    if errs:
        for e in errs:
            print(f"HARNESS-ERROR property={pid} {e}")
        return 2
    seen = set()
    for r in results:
        for v in r["violations"]:
            if v["sig"] not in seen:
                seen.add(v["sig"])
                violations.append(v)
    merged = write_evidence(mod, a.tier, seed, results, violations, time.time() - t0, reg_run)

    for e in known:
        if e.get("status") != "open":
            continue
        hits = merged["known_hits"].get(e["id"], 0)
        if hits or e.get("_reproduced"):
            print(f"KNOWN-FINDING: property={pid} {e['id']} {e['what']} (matcher={e.get('sig') or e.get('sig_re')}, hits={hits})")
    for v in violations:
        print(f"violation: {v['sig']}: {v['msg'][:1500]}")
        print(f"VIOLATION property={pid} replay={v['replay']}")
    print(
        f"{pid} {a.tier} seed={seed}: evaluations={merged['evaluations']} distinct_nontrivial={merged['distinct_nontrivial']} "
        f"violations={len(violations)} wall={time.time() - t0:.1f}s"
    )
    return 1 if violations else 0


def write_evidence(mod, tier, seed, results, violations, wall, reg_run, partial=False):
    from collections import Counter

    evaluations = sum(r["evaluations"] for r in results)
    sub_evals, sub_nt, classes, known_hits, known_sigs = Counter(), Counter(), Counter(), Counter(), Counter()
    nontrivial = set()
    block_nt = 0
    samples = []
    exhaustive = {}
    notes = {}
    for r in results:
        sub_evals.update(r["sub_evals"])
        classes.update(r["classes"])
        known_hits.update(r["known_hits"])
        known_sigs.update(r.get("known_sigs", {}))
        nontrivial.update(r["nontrivial"])
        block_nt += r.get("block_nontrivial", 0)
        for s in r["samples"]:
            if sum(1 for x in samples if x["subcheck"] == s["subcheck"]) < 2:
                samples.append(s)
        for k, v in r["exhaustive"].items():
            if k in exhaustive and isinstance(v, dict) and isinstance(exhaustive[k], dict):
                for kk, vv in v.items():
                    if isinstance(vv, (int, float)) and not isinstance(vv, bool) and kk in exhaustive[k] and kk.startswith("n_"):
                        exhaustive[k][kk] += vv
                    else:
                        exhaustive[k].setdefault(kk, vv)
            else:
                exhaustive.setdefault(k, v)
        notes.update(r["notes"])
    merged = {
        "evaluations": evaluations,
        "distinct_nontrivial": len(nontrivial) + block_nt,
        "known_hits": dict(known_hits),
    }
    ev = {
        "property_id": mod.ID,
        "tier": tier,
        "seed": seed,
        "level": mod.LEVEL,
        "coverage": {
            "evaluations": evaluations + reg_run,
            "distinct_nontrivial": len(nontrivial) + block_nt,
            "rule": mod.RULE,
            "samples": samples[:12] if samples else ([{"note": "run ended in the regression tier"}] if partial else []),
            "subchecks": dict(sub_evals),
            "classes": dict(sorted(classes.items())),
            "known_hits": dict(known_hits),
            "known_hit_signatures": dict(known_sigs),
            "regressions_replayed": reg_run,
            "exhaustive": bool(exhaustive) and all(bool(v.get("complete", True)) if isinstance(v, dict) else bool(v) for v in exhaustive.values()) and getattr(mod, "ALL_EXHAUSTIVE", False),
            "exhaustive_parts": exhaustive,
            "shards": len(results),
            "notes": notes,
        },
        "assumptions": getattr(mod, "ASSUMPTIONS", []),
        "wall_s": round(wall, 2),
        "violations": len(violations),
    }
    if not args_no_evidence():
        os.makedirs(os.path.join(VERIF, "evidence"), exist_ok=True)
        with open(os.path.join(VERIF, "evidence", f"{mod.ID}.json"), "w") as f:
            json.dump(ev, f, indent=1, sort_keys=True)
    return merged


def args_no_evidence():
    # scratch trees (sensitivity runs with VERIF_REPO=...) never overwrite committed evidence
    return "--no-evidence" in sys.argv or REPO != "/repo"


if __name__ == "__main__":
    try:
        rc = main()
    except core.HarnessError as e:
        print(f"HARNESS-ERROR {e}")
        rc = 2
    except BaseException:  # noqa
        traceback.print_exc()
        rc = 2
    sys.stdout.flush()
    sys.exit(rc)
