"""Device definitions as data (`driver_spec`), their Hypothesis strategies, the builder that turns
a spec into real Driver classes (fresh definition objects for every case) and the expected
property set computed from the spec with ordinary Python attribute-resolution semantics.

driver_spec = {"name": str, "chain": [level, ...]}            base-most level first (1..3 levels)
level       = {"groups": [group, ...]}
group       = {"attr": str, "name": str, "enabled": bool, "vectors": [vector, ...]}
vector      = {"attr", "kind" in Text|Number|Switch|Light|BLOB, "name", "label"|None, "state", "perm", "timeout",
               "enabled", "rule", "default_on": [element names], "elements": [element, ...]}
element     = {"attr", "name", "label"|None, "default"|None, "enabled", "format", "min", "max", "step"}
"""
from __future__ import annotations

from hypothesis import strategies as st

from harness import gen

KINDS = ["Text", "Number", "Switch", "Light", "BLOB"]
NUMBER_FORMATS = ["%f", "%.2f", "%d", "%5.1f", "%08.3f", "%+.1f", "%6.3m", "%8.5m", "%9.6m", "%11.8m", "%12.9m"]


# --------------------------------------------------------------------------------------------
# strategies

short_text = gen.stripped_text(max_size=4, max_cp=0x2FFF, allow_empty=True).map(lambda s: s[:24].strip())
label_text = st.none() | st.sampled_from(["Label", "a b", "é", "<&>", '"q"']) | short_text.filter(bool)


def number_value():
    return st.one_of(
        st.integers(-1000, 1000),
        st.floats(-400, 400, allow_nan=False).map(lambda v: round(v, 3)),
        st.sampled_from([0, 1, -1, 0.5, -0.5, -0.25, 59.99, 12.5, 100, 359.9999, -89.999]),
    )


@st.composite
def element_spec(draw, kind, idx):
    # INDI names deliberately unrelated to the Python attribute names
    e = {"attr": f"e{idx}", "name": f"N{idx}X", "label": draw(label_text), "default": None, "enabled": draw(st.sampled_from([True, True, True, False]))}
    if kind == "Text":
        e["default"] = draw(st.none() | short_text)
    elif kind == "Number":
        e["default"] = draw(st.none() | number_value())
        e["format"] = draw(st.sampled_from(NUMBER_FORMATS))
        e["min"], e["max"], e["step"] = draw(st.sampled_from([(None, None, 0), (0, 100, 1), (-90, 90, 0.5), (0, 0, 0)]))
    elif kind == "Light":
        e["default"] = draw(st.none() | st.sampled_from(gen.STATES))
    elif kind == "BLOB":
        # a driver may hold a BLOB from the start (definitions carry no payload: clients learn it at the next publication)
        e["default"] = draw(st.none() | st.none() | st.fixed_dictionaries({"blob": st.binary(min_size=1, max_size=16).map(lambda b: b.hex()), "fmt": st.sampled_from([".bin", ".fits"])}))
    return e


@st.composite
def vector_spec(draw, gidx, vidx, kinds=KINDS):
    kind = draw(st.sampled_from(kinds))
    n = draw(st.integers(1, 4))
    elements = [draw(element_spec(kind, i)) for i in range(n)]
    if not any(e["enabled"] for e in elements):
        elements[0]["enabled"] = True
    v = {
        "attr": f"v{vidx}", "kind": kind, "name": f"G{gidx}V{vidx}", "label": draw(label_text),
        "state": draw(st.sampled_from(gen.STATES)), "perm": draw(st.sampled_from(gen.PERMS)),
        "timeout": draw(st.sampled_from([0, 0, 1, 2.5, 60])), "enabled": draw(st.sampled_from([True, True, False])),
        "elements": elements,
    }
    if kind == "Switch":
        v["rule"] = draw(st.sampled_from(gen.RULES))
        names = [e["name"] for e in elements]
        if v["rule"] == "AnyOfMany":
            v["default_on"] = draw(st.lists(st.sampled_from(names), unique=True, max_size=len(names)))
        else:
            v["default_on"] = draw(st.lists(st.sampled_from(names), unique=True, max_size=1))
    return v


@st.composite
def group_spec(draw, gidx, attr, kinds=KINDS, max_vectors=3):
    nv = draw(st.integers(1, max_vectors))
    return {
        "attr": attr, "name": f"GROUP{gidx}", "enabled": draw(st.sampled_from([True, True, False])),
        "vectors": [draw(vector_spec(gidx, i, kinds)) for i in range(nv)],
    }


@st.composite
def driver_spec(draw, name="DEV", max_depth=3, max_groups=3, kinds=KINDS, max_vectors=3):
    depth = draw(st.integers(1, max_depth))
    chain = []
    gidx = 0
    for level in range(depth):
        ng = draw(st.integers(1 if level == 0 else 0, max_groups if depth == 1 else 2))
        groups = []
        for _ in range(ng):
            # attribute names may repeat across levels: the most derived definition wins
            attr = draw(st.sampled_from(["ga", "gb", "gc", "gd"]))
            if any(g["attr"] == attr for g in groups):
                continue
            groups.append(draw(group_spec(gidx, attr, kinds, max_vectors)))
            gidx += 1
        chain.append({"groups": groups})
    if not any(l["groups"] for l in chain):
        chain[0]["groups"].append(draw(group_spec(gidx, "ga", kinds, max_vectors)))
    spec = {"name": name, "chain": chain}
    if depth >= 2 and draw(st.booleans()):
        spec["deploy_bases"] = draw(st.lists(st.integers(0, depth - 2), min_size=1, max_size=2, unique=True))
    return spec


def deployment(max_devices=3, **kw):
    return st.integers(1, max_devices).flatmap(lambda n: st.tuples(*[driver_spec(name=f"DEV{i}", **kw) for i in range(n)])).map(list)


# --------------------------------------------------------------------------------------------
# builder


def _element(kind, e):
    from indi.device import properties

    cls = getattr(properties, kind if kind != "BLOB" else "BLOB")
    # what equals the documented default is left out, so that the library's own defaults are exercised
    kwargs = {}
    if e.get("label") is not None:
        kwargs["label"] = e["label"]
    if not e.get("enabled", True):
        kwargs["enabled"] = False
    if e.get("default") is not None:
        kwargs["default"] = e["default"]
        if kind == "BLOB":
            from indi.device import values

            kwargs["default"] = values.BLOB(bytes.fromhex(e["default"]["blob"]), e["default"]["fmt"])
    if kind == "Number":
        kwargs["format"] = e.get("format", "%f")
        if e.get("min") is not None:
            kwargs["min"] = e["min"]
        if e.get("max") is not None:
            kwargs["max"] = e["max"]
        kwargs["step"] = e.get("step", 0)
    return cls(e["name"], **kwargs)


def _vector(v):
    from indi.device import properties

    cls = getattr(properties, v["kind"] + "Vector")
    kwargs = {
        "label": v.get("label"), "state": v.get("state", "Ok"), "enabled": v.get("enabled", True),
        "elements": {e["attr"]: _element(v["kind"], e) for e in v["elements"]},
    }
    if v["kind"] != "Light":
        kwargs["perm"] = v.get("perm", "rw")
        kwargs["timeout"] = v.get("timeout", 0)
    if v["kind"] == "Switch":
        kwargs["rule"] = v.get("rule", "OneOfMany")
        if v.get("default_on"):
            kwargs["default_on"] = tuple(v["default_on"])
    return cls(v["name"], **kwargs)


def _group(g):
    from indi.device import properties

    return properties.Group(g["name"], enabled=g.get("enabled", True), vectors={v["attr"]: _vector(v) for v in g["vectors"]})


_counter = [0]


def build_classes(spec, extra_leaf_attrs=None, class_level_name=True):
    """Real Driver classes for a spec, one per level of the chain (base-most first). Fresh definitions every call."""
    from indi.device import Driver

    base = Driver
    n = len(spec["chain"])
    classes = []
    for i, level in enumerate(spec["chain"]):
        dct = {g["attr"]: _group(g) for g in level["groups"]}
        if i == n - 1:
            if class_level_name:
                dct["name"] = spec["name"]
            if extra_leaf_attrs:
                dct.update(extra_leaf_attrs(dct) if callable(extra_leaf_attrs) else extra_leaf_attrs)
        _counter[0] += 1
        base = type(f"Gen{_counter[0]}L{i}", (base,), dct)
        classes.append(base)
    return classes


def build_class(spec, **kw):
    return build_classes(spec, **kw)[-1]


def build(spec, router=None, **kw):
    cls = build_class(spec, **kw)
    return cls(router=router)


# --------------------------------------------------------------------------------------------
# expectations from the spec (never asks the driver which properties it has)


def effective_groups(spec):
    """attr -> group spec, most-derived definition wins (Python attribute resolution)."""
    eff = {}
    for level in spec["chain"]:
        for g in level["groups"]:
            eff[g["attr"]] = g
    return eff


def all_vectors(spec):
    """[(group spec, vector spec)] of the effective definition."""
    out = []
    for g in effective_groups(spec).values():
        for v in g["vectors"]:
            out.append((g, v))
    return out


def default_value(kind, e, v=None):
    d = e.get("default")
    if kind == "Switch":
        return "On" if v is not None and e["name"] in (v.get("default_on") or []) else (d if d is not None else "Off")
    if d is not None:
        return d
    return {"Text": "", "Number": 0.0, "Light": "Ok", "BLOB": None}[kind]


def find_instance(driver, spec, gattr, vattr):
    """The live vector object, reached the documented way: driver.<group attr>.<vector attr>."""
    group = getattr(driver, gattr)
    return getattr(group, vattr)


def spec_size_ok(spec, limit=1800):
    """Rough bound that keeps every def/set message under the 2048-character framing threshold."""
    for g, v in all_vectors(spec):
        size = 200 + sum(len(str(x or "").encode("unicode_escape")) * 2 for x in (g["name"], v["name"], v.get("label")))
        for e in v["elements"]:
            size += 120 + sum(len(str(x or "").encode("unicode_escape")) * 2 for x in (e["name"], e.get("label"), e.get("default")))
        if size > limit:
            return False
    return True


# --------------------------------------------------------------------------------------------
# driver-side operation interpreter (shared by C01, C06, C07, C12)

value_st = st.fixed_dictionaries(
    {
        "t": short_text,
        "n": number_value(),
        "s": st.booleans(),
        "l": st.integers(0, 3),
        "b": st.none() | st.binary(max_size=24).map(lambda b: b.hex()),
        "f": st.sampled_from([".bin", ".fits", "", ".x.y"]),
    }
)


def driver_op():
    i = st.integers(0, 11)
    return st.one_of(
        st.fixed_dictionaries({"op": st.just("assign"), "d": i, "v": i, "e": i, "val": value_st}),
        st.fixed_dictionaries({"op": st.just("assign"), "d": i, "v": i, "e": i, "val": value_st}),
        st.fixed_dictionaries({"op": st.just("set_value"), "d": i, "v": i, "e": i, "val": value_st}),
        st.fixed_dictionaries({"op": st.just("bool"), "d": i, "v": i, "e": i, "val": value_st}),
        st.fixed_dictionaries({"op": st.just("state"), "d": i, "v": i, "val": value_st}),
        st.fixed_dictionaries({"op": st.just("venable"), "d": i, "v": i, "on": st.booleans()}),
        st.fixed_dictionaries({"op": st.just("genable"), "d": i, "g": i, "on": st.booleans()}),
        st.fixed_dictionaries({"op": st.just("select"), "d": i, "v": i, "e": i}),
        # the driver idiom for "push the current value to whoever listens now": assign what the element already holds
        st.fixed_dictionaries({"op": st.just("republish"), "d": i, "v": i, "e": i}),
    )


def driver_macro():
    """Short fixed sequences of driver ops that matter as a sequence (returned as a list; callers flatten):
    a property switched off (or on) while its whole group is hidden, then the group shown again."""
    i = st.integers(0, 11)
    return st.tuples(i, i, i, st.booleans(), st.booleans()).map(
        lambda t: [
            {"op": "genable", "d": t[0], "g": t[1], "on": False},
            {"op": "venable", "d": t[0], "v": t[2], "on": t[3]},
        ] + ([{"op": "venable", "d": t[0], "v": t[2] + 1, "on": not t[3]}] if t[4] else []) + [
            {"op": "genable", "d": t[0], "g": t[1], "on": True},
        ]
    )


def flatten_ops(xs, limit=40):
    return [o for x in xs for o in (x if isinstance(x, list) else [x])][:limit]


def python_value(kind, val):
    """The Python value a driver author would assign for an element of `kind`."""
    if kind == "Text":
        return val["t"]
    if kind == "Number":
        return val["n"]
    if kind == "Switch":
        return "On" if val["s"] else "Off"
    if kind == "Light":
        return gen.STATES[val["l"] % 4]
    if kind == "BLOB":
        from indi.device import values

        if val["b"] is None:
            return None
        return values.BLOB(bytes.fromhex(val["b"]), val["f"])
    raise AssertionError(kind)


class Deployment:
    """Drivers built from specs on one router, plus the model of the enable flags."""

    def __init__(self, specs, router, early=()):
        """early: indices of devices whose NAME is addressed by a getProperties routed before the driver exists (what a
        snooping driver constructed before its target does)."""
        self.router = router
        # A spec with "deploy_bases": [k, ...] also deploys instances of its intermediate classes (level k of the
        # chain) as devices of their own, created BEFORE the leaf instance - a base driver and a driver derived
        # from it running side by side, sharing definitions. They are appended to the list of devices.
        specs = list(specs)
        extra_specs, extra_drivers, leaf_drivers = [], [], []
        for si, s in enumerate(specs):
            if any(k % len(specs) == si for k in early):
                from indi import message as _m

                router.process_message(_m.GetProperties(version="1.7", device=s["name"]), sender=None)
            classes = build_classes(s)
            for k in sorted({k % len(classes) for k in s.get("deploy_bases", [])}):
                if k >= len(classes) - 1 or not any(level["groups"] for level in s["chain"][: k + 1]):
                    continue
                bname = f"{s['name']}B{k}"
                extra_specs.append({"name": bname, "chain": s["chain"][: k + 1]})
                extra_drivers.append(classes[k](name=bname, router=router))
            leaf_drivers.append(classes[-1](router=router))
        self.specs = specs + extra_specs
        self.drivers = leaf_drivers + extra_drivers
        specs = self.specs
        for s, drv in zip(specs, self.drivers):
            for attr, g in effective_groups(s).items():
                grp = getattr(drv, attr, None)
                if grp is None or getattr(grp, "name", None) != g["name"]:
                    from harness.core import Failure

                    raise Failure(
                        f"definition:inherited-group-missing:depth{len(s['chain'])}",
                        f"driver built from an inheritance chain of {len(s['chain'])} classes: attribute {attr!r} is {grp!r}, expected group {g['name']!r}",
                    )
        self.vectors = [all_vectors(s) for s in specs]  # per device [(g, v)]
        self.eenabled = [
            {(g["attr"], v["attr"], e["attr"]): e["enabled"] for g, v in all_vectors(s) for e in v["elements"]} for s in specs
        ]
        self.genabled = [{g["attr"]: g["enabled"] for g in effective_groups(s).values()} for s in specs]
        self.venabled = [{(g["attr"], v["attr"]): v["enabled"] for g, v in vs} for vs in self.vectors]

    def pick(self, op):
        d = op["d"] % len(self.specs)
        vs = self.vectors[d]
        g, v = vs[op["v"] % len(vs)]
        return d, g, v

    def instance(self, d, g, v):
        return getattr(getattr(self.drivers[d], g["attr"]), v["attr"])

    def is_enabled(self, d, g, v):
        return self.genabled[d][g["attr"]] and self.venabled[d][(g["attr"], v["attr"])]

    def element_enabled(self, d, g, v, e):
        """The per-device element flag (initially the declared one; changed by the 'eenable' op)."""
        return self.eenabled[d][(g["attr"], v["attr"], e["attr"])]

    def apply(self, op):
        """Apply one driver-side op. Returns a label. Library exceptions propagate."""
        t = op["op"]
        if t == "genable":
            d = op["d"] % len(self.specs)
            groups = list(effective_groups(self.specs[d]).values())
            g = groups[op["g"] % len(groups)]
            getattr(self.drivers[d], g["attr"]).enabled = op["on"]
            self.genabled[d][g["attr"]] = op["on"]
            return "genable"
        d, g, v = self.pick(op)
        inst = self.instance(d, g, v)
        if t == "venable":
            inst.enabled = op["on"]
            self.venabled[d][(g["attr"], v["attr"])] = op["on"]
            return "venable"
        if t == "state":
            inst.state_ = gen.STATES[op["val"]["l"] % 4]
            return "state"
        e = v["elements"][op["e"] % len(v["elements"])]
        el = getattr(inst, e["attr"])
        kind = v["kind"]
        if t == "eenable":
            # element-level flag of THIS device (publishes nothing; the next definition reflects it)
            el.enabled = op["on"]
            self.eenabled[d][(g["attr"], v["attr"], e["attr"])] = op["on"]
            return "eenable"
        if t == "select":
            if kind != "Switch":
                return "noop"
            inst.selected_value = e["name"]
            return "select"
        if t == "bool" and kind == "Switch":
            el.bool_value = op["val"]["s"]
            return "bool"
        if t == "republish":
            if el._value is None:
                return "noop"
            el.value = el._value
            return f"republish-{kind}"
        val = python_value(kind, op["val"])
        if t == "reset":
            # the silent setter drivers use to sync an element with the hardware (typically from a Read handler): nothing is
            # published, the next definition / update must show the new value
            if kind not in ("Text", "Number", "Light"):
                return "noop"
            el.reset_value(val)
            return f"reset-{kind}"
        if t == "set_value":
            el.set_value(val)
            return f"set_value-{kind}"
        el.value = val
        return f"assign-{kind}"
