#!/bin/bash
# Offline setup: Hypothesis into /venv if missing, atheris (cp312 wheel) into /verif/.deps for the fuzz tiers.
set -e
cd "$(dirname "$0")"
export PIP_NO_INDEX=1
/venv/bin/python -c "import hypothesis" 2>/dev/null || /venv/bin/pip install --no-index --find-links /opt/veriftools/wheels hypothesis
if ! PYTHONPATH=.deps /venv/bin/python -c "import atheris" 2>/dev/null; then
  /venv/bin/pip install --no-index --find-links /opt/veriftools/wheels --target .deps atheris || echo "atheris not installable: fuzz sub-checks will be skipped"
fi
/venv/bin/python -c "import sys; sys.path.insert(0,'/repo'); import indi; print('indi', indi.__file__)"
